#!/usr/bin/env python3
"""E2c driver: run the simulated-threads program under Miri's seeded scheduler.

usage: run_miri.py check <PROP> <tier> <verif_seed> <evidence.json>      (E2c threads)
       run_miri.py simslice <PROP> <tier> <verif_seed> <evidence.json>   (a slice of the engine's index space under Miri)
       run_miri.py replay <PROP> <replay.json>
Exit 0 held, 1 violation (VIOLATION line printed), 2 harness error.
"""
import json, os, re, subprocess, sys, time

ROOT = os.path.dirname(os.path.abspath(__file__))
VERIF = os.path.dirname(ROOT)


def miri(flags, args, timeout):
    env = dict(os.environ)
    env["MIRIFLAGS"] = flags
    env["CARGO_NET_OFFLINE"] = "true"
    t0 = time.time()
    p = subprocess.run(["cargo", "+nightly", "miri", "run", "--offline", "--"] + [str(a) for a in args],
                       cwd=ROOT, env=env, stdout=subprocess.PIPE, stderr=subprocess.STDOUT, text=True, timeout=timeout)
    return p.returncode, p.stdout, time.time() - t0


def failing_seed(out):
    # cargo-miri prints e.g. "Trying seed: 5" per seed and, on failure, mentions the seed
    m = re.findall(r"seed[ =:]+(\d+)", out[out.find("error"):] if "error" in out else "")
    return int(m[0]) if m else None


def check(prop, tier, seed, evidence_path):
    if tier == "thorough":
        nseeds, histories, steps = 256, 6, 40
    else:
        nseeds, histories, steps = 8, 3, 24
    flags = "-Zmiri-many-seeds=0..%d -Zmiri-preemption-rate=0.1" % nseeds
    try:
        rc, out, wall = miri(flags, [seed, histories, steps], 3600)
    except subprocess.TimeoutExpired:
        print("HARNESS-ERROR: miri timed out", file=sys.stderr)
        return 2
    oks = out.count("e2c ok")
    viol = 0
    result = {"tool": "cargo +nightly miri run (-Zmiri-many-seeds=0..%d -Zmiri-preemption-rate=0.1)" % nseeds,
              "verif_seed": seed, "miri_scheduler_seeds": nseeds, "histories_per_seed": histories,
              "steps_per_thread": steps, "threads_per_history": "2-3", "seeds_passed": oks, "wall_s": round(wall, 1)}
    if rc != 0 or oks != nseeds:
        if "Undefined Behavior" in out or "panicked" in out or "data race" in out.lower() or "memory leaked" in out:
            viol = 1
            fs = failing_seed(out)
            os.makedirs(os.path.join(VERIF, "replays"), exist_ok=True)
            rp = os.path.join(VERIF, "replays", "%s-miri-%s.json" % (prop, fs if fs is not None else "x"))
            tail = out.strip().splitlines()[-40:]
            json.dump({"property": prop, "engine": "e2c-miri", "verif_seed": seed, "histories": histories, "steps": steps,
                       "miri_seed": fs, "miri_seeds_tried": nseeds, "class": "miri@e2c", "output_tail": tail}, open(rp, "w"), indent=1)
            print("VIOLATION property=%s replay=%s" % (prop, rp))
            print("  class: miri@e2c (simulated threads over EndianArcSlice / fixed storages)")
            for l in tail[-12:]:
                print("  | " + l)
        else:
            print("HARNESS-ERROR: miri run failed (rc=%d, %d/%d seeds ok)" % (rc, oks, nseeds), file=sys.stderr)
            print(out[-3000:], file=sys.stderr)
            return 2
    result["violations"] = viol
    try:
        ev = json.load(open(evidence_path))
        ev["coverage"]["e2c_miri_threads"] = result
        ev["coverage"]["evaluations"] = ev["coverage"]["evaluations"] + oks * histories
        ev["wall_s"] = ev.get("wall_s", 0) + wall
        ev["violations"] = ev.get("violations", 0) + viol
        ev["coverage"]["real_vs_stub"]["miri"] = "real gimli (EndianReader/SubRange unsafe code, ArrayVec) interpreted by Miri; caller threads are real std threads scheduled by Miri's seeded scheduler"
        json.dump(ev, open(evidence_path, "w"), indent=2)
    except Exception as e:
        print("HARNESS-ERROR: cannot update evidence: %s" % e, file=sys.stderr)
        return 2
    print("MIRI property=%s seeds=%d/%d histories/seed=%d wall=%.1fs violations=%d" % (prop, oks, nseeds, histories, wall, viol))
    return 1 if viol else 0


SIM = os.path.join(VERIF, "sim")


def sim_miri_cmd(args):
    return ["cargo", "+nightly", "miri", "run", "--offline", "--"] + [str(a) for a in args]


def sim_env():
    env = dict(os.environ)
    # fixtures are read from /repo/fixtures: needs file access
    env["MIRIFLAGS"] = "-Zmiri-disable-isolation"
    env["CARGO_NET_OFFLINE"] = "true"
    env["CARGO_TARGET_DIR"] = os.path.join(SIM, "target", "miri")
    return env


def parse_slice(out):
    """-> (results: {index: json-text}, last_begun, finished)"""
    res, last, fin, cases = {}, None, False, {}
    for l in out.splitlines():
        if l.startswith("B "):
            last = int(l[2:])
        elif l.startswith("R "):
            i, _, j = l[2:].partition(" ")
            res[int(i)] = j
        elif l.startswith("E ") and last is not None:
            cases[last] = l[2:]
        elif l.startswith("S "):
            fin = True
    return res, last, fin, cases


def simslice(prop, tier, seed, evidence_path):
    """Runs N indices spread evenly over the property's index space (exhaustive, sweep and
    random blocks alike) with the real simulator + real gimli interpreted by Miri: every
    unsafe block of gimli (ArrayVec storage, SubRange pointer arithmetic) is executed under
    Miri's checks, and each run's event-stream digest must equal the native one."""
    native = os.path.join(SIM, "target", "debug", "simctl")
    p = subprocess.run([native, "runs", prop, "--tier", tier], stdout=subprocess.PIPE, text=True)
    if p.returncode != 0:
        print("HARNESS-ERROR: simctl runs %s failed" % prop, file=sys.stderr)
        return 2
    engine, runs = p.stdout.split()
    runs = int(runs)
    procs = 16
    per = {"quick": 2, "thorough": 12}.get(tier, 2)
    if engine == "e4":
        per = max(1, per // 3)  # one E4 index = 31 executions of the unwinder
    n = procs * per
    stride = max(1, runs // n)
    t0 = time.time()
    # build once, serially
    b = subprocess.run(sim_miri_cmd(["slice", "--prop", prop, "--tier", tier, "--engine", engine, "--seed", seed, "--count", 0]),
                       cwd=SIM, env=sim_env(), stdout=subprocess.PIPE, stderr=subprocess.STDOUT, text=True)
    if b.returncode != 0 or "S 0" not in b.stdout:
        print("HARNESS-ERROR: miri build of the simulator failed", file=sys.stderr)
        print(b.stdout[-3000:], file=sys.stderr)
        return 2
    def args_of(k):
        return ["slice", "--prop", prop, "--tier", tier, "--engine", engine, "--seed", seed,
                "--start", k * stride + (seed % stride), "--step", procs * stride, "--count", per, "--max-bytes", 6000]
    ps = [subprocess.Popen(sim_miri_cmd(args_of(k)), cwd=SIM, env=sim_env(), stdout=subprocess.PIPE, stderr=subprocess.PIPE, text=True)
          for k in range(procs)]
    outs = []
    for q in ps:
        try:
            o, e = q.communicate(timeout=7200)
        except subprocess.TimeoutExpired:
            q.kill()
            print("HARNESS-ERROR: miri slice timed out", file=sys.stderr)
            return 2
        outs.append((q.returncode, o, e))
    viol, done, mism = [], 0, 0
    for k, (rc, o, e) in enumerate(outs):
        res, last, fin, cases = parse_slice(o)
        done += len(res)
        # native twin of the same slice
        nat = subprocess.run([native] + [str(a) for a in args_of(k)], stdout=subprocess.PIPE, stderr=subprocess.DEVNULL, text=True)
        nres, _, nfin, _ = parse_slice(nat.stdout)
        for i, j in res.items():
            for r in json.loads(j):
                if r.get("class"):
                    viol.append({"index": i, "class": r["class"] + " (under miri)", "case": json.loads(cases[i]) if i in cases else None, "tail": []})
            if i in nres and nres[i] != j:
                mism += 1
                viol.append({"index": i, "class": "miri_native_divergence@%s" % engine, "case": None,
                             "tail": ["miri:   " + j[:400], "native: " + nres[i][:400]]})
        if rc != 0 or not fin:
            tail = e.strip().splitlines()[-40:]
            if "Undefined Behavior" in e or "error: " in e:
                viol.append({"index": last, "class": "miri_ub@%s" % engine, "case": None, "tail": tail})
            else:
                print("HARNESS-ERROR: miri slice %d failed rc=%s" % (k, rc), file=sys.stderr)
                print(e[-3000:], file=sys.stderr)
                return 2
    wall = time.time() - t0
    seen = set()
    os.makedirs(os.path.join(VERIF, "replays"), exist_ok=True)
    for v in viol:
        key = v["class"]
        if key in seen:
            continue
        seen.add(key)
        rp = os.path.join(VERIF, "replays", "%s-mirislice-%s.json" % (prop, v["index"]))
        json.dump({"property": prop, "engine": "e2c-miri", "kind": "simslice", "sim_engine": engine, "tier": tier, "verif_seed": seed,
                   "index": v["index"], "class": v["class"], "case": v["case"], "output_tail": v["tail"]}, open(rp, "w"), indent=1)
        print("VIOLATION property=%s replay=%s" % (prop, rp))
        print("  class: %s" % v["class"])
        for l in v["tail"][-14:]:
            print("  | " + l)
    try:
        ev = json.load(open(evidence_path))
        ev["coverage"]["miri_slice"] = {
            "tool": "cargo +nightly miri run (-Zmiri-disable-isolation) of the simulator itself",
            "engine": engine, "indices_run": done, "indices_planned": n, "stride": stride, "index_space": runs,
            "digest_mismatches_vs_native": mism, "violations": len(seen), "wall_s": round(wall, 1),
            "what": "real simulator + real gimli interpreted by Miri; each index also executed natively and the event-stream digests compared"}
        ev["coverage"]["evaluations"] = ev["coverage"]["evaluations"] + done
        ev["wall_s"] = ev.get("wall_s", 0) + wall
        ev["violations"] = ev.get("violations", 0) + len(seen)
        json.dump(ev, open(evidence_path, "w"), indent=2)
    except Exception as ex:
        print("HARNESS-ERROR: cannot update evidence: %s" % ex, file=sys.stderr)
        return 2
    print("MIRI-SLICE property=%s engine=%s indices=%d/%d digest_mismatches=%d wall=%.1fs violations=%d" % (prop, engine, done, n, mism, wall, len(seen)))
    return 1 if seen else 0


def replay_slice(prop, r):
    args = ["slice", "--prop", prop, "--tier", r["tier"], "--engine", r["sim_engine"], "--seed", r["verif_seed"],
            "--start", r["index"], "--step", 1, "--count", 1]
    p = subprocess.run(sim_miri_cmd(args), cwd=SIM, env=sim_env(), stdout=subprocess.PIPE, stderr=subprocess.PIPE, text=True)
    nat = subprocess.run([os.path.join(SIM, "target", "debug", "simctl")] + [str(a) for a in args], stdout=subprocess.PIPE, stderr=subprocess.DEVNULL, text=True)
    res, _, fin, _ = parse_slice(p.stdout)
    nres, _, _, _ = parse_slice(nat.stdout)
    print(p.stdout[-1500:])
    print(p.stderr[-2500:])
    bad = p.returncode != 0 or not fin or res != nres or any(x.get("class") for j in res.values() for x in json.loads(j))
    if bad:
        print("VIOLATION property=%s replay=%s" % (prop, r.get("_path", "?")))
        return 1
    print("replay: no violation reproduced on the current tree")
    return 0


def replay(prop, path):
    r = json.load(open(path))
    if r.get("kind") == "simslice":
        r["_path"] = path
        return replay_slice(prop, r)
    flags = "-Zmiri-preemption-rate=0.1"
    if r.get("miri_seed") is not None:
        flags += " -Zmiri-seed=%d" % r["miri_seed"]
    else:
        flags += " -Zmiri-many-seeds=0..%d" % r.get("miri_seeds_tried", 8)
    rc, out, _ = miri(flags, [r["verif_seed"], r["histories"], r["steps"]], 3600)
    print(out[-2500:])
    if rc != 0:
        print("VIOLATION property=%s replay=%s" % (prop, path))
        return 1
    print("replay: no violation reproduced on the current tree")
    return 0


if __name__ == "__main__":
    if sys.argv[1] == "check":
        sys.exit(check(sys.argv[2], sys.argv[3], int(sys.argv[4], 0), sys.argv[5]))
    elif sys.argv[1] == "simslice":
        sys.exit(simslice(sys.argv[2], sys.argv[3], int(sys.argv[4], 0), sys.argv[5]))
    elif sys.argv[1] == "replay":
        sys.exit(replay(sys.argv[2], sys.argv[3]))
    sys.exit(2)
