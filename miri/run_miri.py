#!/usr/bin/env python3
"""E2c driver: run the simulated-threads program under Miri's seeded scheduler.

usage: run_miri.py check <PROP> <tier> <verif_seed> <evidence.json>
       run_miri.py replay <PROP> <replay.json>
Exit 0 held, 1 violation (VIOLATION line printed), 2 harness error.
"""
import json, os, re, subprocess, sys, time

ROOT = os.path.dirname(os.path.abspath(__file__))
VERIF = os.path.dirname(ROOT)


def miri(flags, args, timeout):
    env = dict(os.environ)
    env["MIRIFLAGS"] = flags
    env["CARGO_NET_OFFLINE"] = "true"
    t0 = time.time()
    p = subprocess.run(["cargo", "+nightly", "miri", "run", "--offline", "--"] + [str(a) for a in args],
                       cwd=ROOT, env=env, stdout=subprocess.PIPE, stderr=subprocess.STDOUT, text=True, timeout=timeout)
    return p.returncode, p.stdout, time.time() - t0


def failing_seed(out):
    # cargo-miri prints e.g. "Trying seed: 5" per seed and, on failure, mentions the seed
    m = re.findall(r"seed[ =:]+(\d+)", out[out.find("error"):] if "error" in out else "")
    return int(m[0]) if m else None


def check(prop, tier, seed, evidence_path):
    if tier == "thorough":
        nseeds, histories, steps = 256, 6, 40
    else:
        nseeds, histories, steps = 8, 3, 24
    flags = "-Zmiri-many-seeds=0..%d -Zmiri-preemption-rate=0.1" % nseeds
    try:
        rc, out, wall = miri(flags, [seed, histories, steps], 3600)
    except subprocess.TimeoutExpired:
        print("HARNESS-ERROR: miri timed out", file=sys.stderr)
        return 2
    oks = out.count("e2c ok")
    viol = 0
    result = {"tool": "cargo +nightly miri run (-Zmiri-many-seeds=0..%d -Zmiri-preemption-rate=0.1)" % nseeds,
              "verif_seed": seed, "miri_scheduler_seeds": nseeds, "histories_per_seed": histories,
              "steps_per_thread": steps, "threads_per_history": "2-3", "seeds_passed": oks, "wall_s": round(wall, 1)}
    if rc != 0 or oks != nseeds:
        if "Undefined Behavior" in out or "panicked" in out or "data race" in out.lower() or "memory leaked" in out:
            viol = 1
            fs = failing_seed(out)
            os.makedirs(os.path.join(VERIF, "replays"), exist_ok=True)
            rp = os.path.join(VERIF, "replays", "%s-miri-%s.json" % (prop, fs if fs is not None else "x"))
            tail = out.strip().splitlines()[-40:]
            json.dump({"property": prop, "engine": "e2c-miri", "verif_seed": seed, "histories": histories, "steps": steps,
                       "miri_seed": fs, "miri_seeds_tried": nseeds, "class": "miri@e2c", "output_tail": tail}, open(rp, "w"), indent=1)
            print("VIOLATION property=%s replay=%s" % (prop, rp))
            print("  class: miri@e2c (simulated threads over EndianArcSlice / fixed storages)")
            for l in tail[-12:]:
                print("  | " + l)
        else:
            print("HARNESS-ERROR: miri run failed (rc=%d, %d/%d seeds ok)" % (rc, oks, nseeds), file=sys.stderr)
            print(out[-3000:], file=sys.stderr)
            return 2
    result["violations"] = viol
    try:
        ev = json.load(open(evidence_path))
        ev["coverage"]["e2c_miri_threads"] = result
        ev["coverage"]["evaluations"] = ev["coverage"]["evaluations"] + oks * histories
        ev["wall_s"] = ev.get("wall_s", 0) + wall
        ev["violations"] = ev.get("violations", 0) + viol
        ev["coverage"]["real_vs_stub"]["miri"] = "real gimli (EndianReader/SubRange unsafe code, ArrayVec) interpreted by Miri; caller threads are real std threads scheduled by Miri's seeded scheduler"
        json.dump(ev, open(evidence_path, "w"), indent=2)
    except Exception as e:
        print("HARNESS-ERROR: cannot update evidence: %s" % e, file=sys.stderr)
        return 2
    print("MIRI property=%s seeds=%d/%d histories/seed=%d wall=%.1fs violations=%d" % (prop, oks, nseeds, histories, wall, viol))
    return 1 if viol else 0


def replay(prop, path):
    r = json.load(open(path))
    flags = "-Zmiri-preemption-rate=0.1"
    if r.get("miri_seed") is not None:
        flags += " -Zmiri-seed=%d" % r["miri_seed"]
    else:
        flags += " -Zmiri-many-seeds=0..%d" % r.get("miri_seeds_tried", 8)
    rc, out, _ = miri(flags, [r["verif_seed"], r["histories"], r["steps"]], 3600)
    print(out[-2500:])
    if rc != 0:
        print("VIOLATION property=%s replay=%s" % (prop, path))
        return 1
    print("replay: no violation reproduced on the current tree")
    return 0


if __name__ == "__main__":
    if sys.argv[1] == "check":
        sys.exit(check(sys.argv[2], sys.argv[3], int(sys.argv[4], 0), sys.argv[5]))
    elif sys.argv[1] == "replay":
        sys.exit(replay(sys.argv[2], sys.argv[3]))
    sys.exit(2)
