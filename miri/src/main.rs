//! E2c: simulated caller threads sharing one buffer through EndianArcSlice (C10) plus
//! fixed-capacity storage paths (ArrayVec over MaybeUninit) exercised for UB.
//! Run under Miri: `cargo +nightly miri run -- <verif_seed> <histories>`; Miri's own
//! scheduler seed comes from -Zmiri-many-seeds / -Zmiri-seed. Every check is against a
//! thread-local safe cursor model; Miri additionally reports data races, use-after-free,
//! out-of-bounds pointer arithmetic and leaks. Exit code 0 = held, 101 (panic) = violation.

use gimli::{
    BaseAddresses, EhFrame, EndianArcSlice, EndianSlice, Evaluation, EvaluationStorage, LittleEndian, Piece,
    Reader, Register, RegisterRule, UnwindContext, UnwindContextStorage, UnwindSection, UnwindTableRow, Value,
};
use std::sync::mpsc;
use std::sync::Arc;

struct Rng(u64);
impl Rng {
    fn next(&mut self) -> u64 {
        self.0 = self.0.wrapping_add(0x9e3779b97f4a7c15);
        let mut z = self.0;
        z = (z ^ (z >> 30)).wrapping_mul(0xbf58476d1ce4e5b9);
        z = (z ^ (z >> 27)).wrapping_mul(0x94d049bb133111eb);
        z ^ (z >> 31)
    }
    fn below(&mut self, n: u64) -> u64 {
        if n == 0 { 0 } else { self.next() % n }
    }
}

type R = EndianArcSlice<LittleEndian>;

/// (reader, model start, model len)
struct H {
    r: R,
    start: usize,
    len: usize,
}

fn check(h: &H, base: &[u8], what: &str) {
    assert_eq!(h.r.len(), h.len, "{}: len", what);
    assert_eq!(h.r.bytes(), &base[h.start..h.start + h.len], "{}: window", what);
}

fn script(mut rng: Rng, base: Arc<[u8]>, first: R, rx: mpsc::Receiver<H>, tx: mpsc::Sender<H>, steps: usize) {
    let mut hs: Vec<H> = vec![H { len: first.len(), r: first, start: 0 }];
    for step in 0..steps {
        if let Ok(h) = rx.try_recv() {
            check(&h, &base, "received");
            hs.push(h);
        }
        if hs.is_empty() {
            break;
        }
        let i = rng.below(hs.len() as u64) as usize;
        let n = rng.below(hs[i].len as u64 + 3) as usize;
        match rng.below(9) {
            0 => {
                let ok = hs[i].r.skip(n).is_ok();
                assert_eq!(ok, n <= hs[i].len);
                if ok {
                    hs[i].start += n;
                    hs[i].len -= n;
                }
            }
            1 => {
                let r = hs[i].r.split(n);
                assert_eq!(r.is_ok(), n <= hs[i].len);
                if let Ok(r) = r {
                    let nh = H { r, start: hs[i].start, len: n };
                    hs[i].start += n;
                    hs[i].len -= n;
                    hs.push(nh);
                }
            }
            2 => {
                let ok = hs[i].r.truncate(n).is_ok();
                assert_eq!(ok, n <= hs[i].len);
                if ok {
                    hs[i].len = n;
                }
            }
            3 => {
                let c = H { r: hs[i].r.clone(), start: hs[i].start, len: hs[i].len };
                hs.push(c);
            }
            4 => {
                let h = hs.swap_remove(i);
                drop(h);
            }
            5 => {
                // hand a clone to the other thread
                let c = H { r: hs[i].r.clone(), start: hs[i].start, len: hs[i].len };
                let _ = tx.send(c);
            }
            6 => {
                let r = hs[i].r.read_u16();
                assert_eq!(r.is_ok(), hs[i].len >= 2);
                if r.is_ok() {
                    let s = hs[i].start;
                    assert_eq!(r.unwrap(), u16::from_le_bytes([base[s], base[s + 1]]));
                    hs[i].start += 2;
                    hs[i].len -= 2;
                }
            }
            7 => {
                if hs[i].len >= 1 {
                    let a = rng.below(hs[i].len as u64) as usize;
                    let b = a + rng.below((hs[i].len - a) as u64 + 1) as usize;
                    let r = hs[i].r.range(a..b);
                    hs.push(H { r, start: hs[i].start + a, len: b - a });
                }
            }
            _ => {
                hs[i].r.empty();
                hs[i].len = 0;
            }
        }
        for (k, h) in hs.iter().enumerate() {
            if k % 3 == step % 3 {
                check(h, &base, "local");
            }
        }
        std::thread::yield_now();
    }
    // drop in a seed-chosen order
    while !hs.is_empty() {
        let i = rng.below(hs.len() as u64) as usize;
        drop(hs.swap_remove(i));
    }
}

struct Small;
impl UnwindContextStorage<usize> for Small {
    type Rules = [(Register, RegisterRule<usize>); 3];
    type Stack = [UnwindTableRow<usize, Self>; 2];
}
struct EvalSmall;
impl<R: Reader> EvaluationStorage<R> for EvalSmall {
    type Stack = [Value; 3];
    type ExpressionStack = [(R, R); 1];
    type Result = [Piece<R>; 1];
}

/// Fixed-capacity ArrayVec paths (MaybeUninit): unwind context on [_; N] storage reused
/// across failing programs, evaluation dropped while suspended.
fn storage_paths(rng: &mut Rng) {
    // CIE (def_cfa r7+8, one rule) + FDE with remember/restore and many registers
    let mut eh: Vec<u8> = Vec::new();
    let cie: &[u8] = &[1, 0, 1, 0x78, 16, 0x0c, 7, 8, 0x90, 1, 0, 0, 0, 0, 0];
    eh.extend_from_slice(&((cie.len() + 4) as u32).to_le_bytes());
    eh.extend_from_slice(&0u32.to_le_bytes());
    eh.extend_from_slice(cie);
    let mut prog: Vec<u8> = Vec::new();
    for _ in 0..rng.below(12) {
        match rng.below(6) {
            0 => prog.push(0x0a),
            1 => prog.push(0x0b),
            2 => prog.extend_from_slice(&[0x80 | (rng.below(30) as u8), 1]),
            3 => prog.push(0x41),
            4 => prog.push(0xc0 | (rng.below(30) as u8)),
            _ => prog.extend_from_slice(&[0x0e, 16]),
        }
    }
    let fde_start = eh.len();
    let body_len = 4 + 8 + 8 + prog.len();
    eh.extend_from_slice(&(body_len as u32).to_le_bytes());
    eh.extend_from_slice(&((fde_start + 4) as u32).to_le_bytes());
    eh.extend_from_slice(&0x1000u64.to_le_bytes());
    eh.extend_from_slice(&0x100u64.to_le_bytes());
    eh.extend_from_slice(&prog);
    eh.extend_from_slice(&0u32.to_le_bytes());
    let sec = EhFrame::from(EndianSlice::new(&eh, LittleEndian));
    let bases = BaseAddresses::default().set_eh_frame(0);
    let mut ctx: UnwindContext<usize, Small> = UnwindContext::new_in();
    for _ in 0..3 {
        let _ = sec.unwind_info_for_address(&bases, &mut ctx, 0x1000 + rng.below(0x100), |s, b, o| s.cie_from_offset(b, o));
        if let Ok(fde) = sec.fde_for_address(&bases, 0x1010, |s, b, o| s.cie_from_offset(b, o)) {
            if let Ok(mut t) = fde.rows(&sec, &bases, &mut ctx) {
                let mut n = 0;
                while let Ok(Some(_)) = t.next_row() {
                    n += 1;
                    if n > 64 {
                        break;
                    }
                }
            }
        }
    }
    // evaluation on fixed storage, dropped at a random suspension
    let expr: Vec<u8> = (0..rng.below(10)).map(|_| [0x30u8, 0x31, 0x12, 0x22, 0x70, 0x9c, 0x06, 0x13, 0x16][rng.below(9) as usize]).chain([0x70, 0]).collect();
    let enc = gimli::Encoding { address_size: 8, format: gimli::Format::Dwarf32, version: 4 };
    let mut ev: Evaluation<_, EvalSmall> = Evaluation::new_in(EndianSlice::new(&expr, LittleEndian), enc);
    let mut r = ev.evaluate();
    let mut k = 0;
    let stop = rng.below(4);
    while let Ok(res) = r {
        if k == stop {
            break; // drop while suspended
        }
        k += 1;
        r = match res {
            gimli::EvaluationResult::Complete => break,
            gimli::EvaluationResult::RequiresRegister { .. } => ev.resume_with_register(Value::Generic(rng.next())),
            gimli::EvaluationResult::RequiresCallFrameCfa => ev.resume_with_call_frame_cfa(rng.next()),
            gimli::EvaluationResult::RequiresMemory { .. } => ev.resume_with_memory(Value::Generic(rng.next())),
            _ => break,
        };
    }
}

fn main() {
    let args: Vec<String> = std::env::args().collect();
    let seed: u64 = args.get(1).and_then(|s| s.parse().ok()).unwrap_or(1);
    let histories: u64 = args.get(2).and_then(|s| s.parse().ok()).unwrap_or(2);
    let steps: usize = args.get(3).and_then(|s| s.parse().ok()).unwrap_or(24);
    for h in 0..histories {
        let mut rng = Rng(seed.wrapping_mul(1_000_003).wrapping_add(h));
        let n = 1 + rng.below(40) as usize;
        let bytes: Vec<u8> = (0..n).map(|_| rng.next() as u8).collect();
        let base: Arc<[u8]> = Arc::from(&bytes[..]);
        let root = EndianArcSlice::new(base.clone(), LittleEndian);
        let nthreads = 2 + rng.below(2) as usize;
        // ring of channels
        let mut txs = Vec::new();
        let mut rxs = Vec::new();
        for _ in 0..nthreads {
            let (tx, rx) = mpsc::channel::<H>();
            txs.push(tx);
            rxs.push(Some(rx));
        }
        let mut handles = Vec::new();
        for t in 0..nthreads {
            let rx = rxs[t].take().unwrap();
            let tx = txs[(t + 1) % nthreads].clone();
            let r = root.clone();
            let b = base.clone();
            let child = Rng(rng.next());
            handles.push(std::thread::spawn(move || script(child, b, r, rx, tx, steps)));
        }
        drop(txs);
        drop(root);
        for h in handles {
            h.join().expect("script thread panicked: model mismatch");
        }
        // every reader is gone: this is the only reference left
        assert_eq!(Arc::strong_count(&base), 1, "a reader outlived its handles");
        storage_paths(&mut rng);
    }
    println!("e2c ok seed={} histories={}", seed, histories);
}
