//! Driver for .debug_info/.debug_types/.debug_abbrev and the Dwarf-level helpers
//! (units, DIE navigation in all styles, attribute resolution, die/unit ranges,
//! locations, the unit's line program, macros).

use super::line::{log_attr_value, log_macro, RowMonitor};
use super::lists::check_range;
use super::{call, call_q, drain, ladder, Fused};
use crate::case::Case;
use crate::ctx::{Ctx, LoopGuard};
use crate::ev;
use gimli::{
    AbbreviationsCacheStrategy, AttributeValue, DebugAbbrev, DebugInfoOffset,
    DebuggingInformationEntry, Dwarf, DwarfFileType, EntriesTreeNode, Error, MacroEntry, Reader,
    SectionId, Unit, UnitHeader, UnitOffset, UnitType,
};
use std::sync::Arc;

pub fn sec_name(id: SectionId) -> &'static str {
    id.name().trim_start_matches('.')
}

/// Build a `Dwarf<R>` from the case's sections through the real loader path.
pub fn load_dwarf<'a, R: Reader<Offset = usize> + 'a>(
    mk: &dyn Fn(&'a [u8]) -> R,
    case: &'a Case,
    prefix: &str,
) -> Dwarf<R> {
    let r: Result<Dwarf<R>, ()> = Dwarf::load(|id| {
        let name = format!("{}{}", prefix, sec_name(id));
        Ok(mk(case.secs.get(&name).map(|v| &v[..]).unwrap_or(&[])))
    });
    r.unwrap()
}

pub fn log_header<R: Reader<Offset = usize>>(ctx: &mut Ctx<'_>, h: &UnitHeader<R>) {
    ev!(
        ctx,
        "unit sec={:?} off={:?} len={} enc={:?} type={:?} abbrev={} hdr_size={} size_of_header={} root={}",
        h.section(),
        h.offset(),
        h.unit_length(),
        h.encoding(),
        h.type_(),
        h.debug_abbrev_offset().0,
        h.header_size(),
        h.size_of_header(),
        h.root_offset().0
    );
    match h.type_() {
        UnitType::Compilation => {}
        UnitType::Type { .. } => ctx.probe("unit_type_type"),
        UnitType::Skeleton(_) => ctx.probe("unit_type_skeleton"),
        UnitType::SplitCompilation(_) => ctx.probe("unit_type_split_compilation"),
        UnitType::SplitType { .. } => ctx.probe("unit_type_split_type"),
        UnitType::Partial => ctx.probe("unit_type_partial"),
    }
    if h.format() == gimli::Format::Dwarf64 {
        ctx.probe("unit_dwarf64");
    }
}

pub fn log_entry<R: Reader<Offset = usize>>(ctx: &mut Ctx<'_>, what: &str, e: &DebuggingInformationEntry<R>, full: bool) {
    ev!(
        ctx,
        "{} off={} depth={} tag={:?} children={} nattrs={} null={}",
        what,
        e.offset().0,
        e.depth(),
        e.tag(),
        e.has_children(),
        e.attrs().len(),
        e.is_null()
    );
    if full {
        for a in e.attrs().iter().take(24) {
            ev!(ctx, "  attr {:?} {:?}", a.name(), a.form());
            if a.form() == gimli::constants::DW_FORM_indirect {
                ctx.probe("form_indirect");
            }
            log_attr_value(ctx, "   raw", &a.raw_value());
            log_attr_value(ctx, "   val", &a.value());
            ev!(
                ctx,
                "   u8={:?} u16={:?} udata={:?} sdata={:?} off={:?}",
                a.u8_value(),
                a.u16_value(),
                a.udata_value(),
                a.sdata_value(),
                a.offset_value()
            );
        }
    }
}

/// `skip` != 0: the children of some nodes (chosen by entry offset) are not visited, so the
/// next sibling is reached through the tree's own skipping (DW_AT_sibling fast path or scan).
fn walk_tree<R: Reader<Offset = usize>>(ctx: &mut Ctx<'_>, node: EntriesTreeNode<'_, '_, R>, depth: usize, budget: &mut u64, skip: u64) {
    log_entry(ctx, "tree", node.entry(), false);
    if depth > 150 {
        return;
    }
    if skip != 0 && depth > 0 && crate::rng::mix(skip, node.entry().offset().0 as u64, 7) & 1 == 1 {
        ev!(ctx, "skip children");
        return;
    }
    let mut children = node.children();
    let mut guard = LoopGuard::new(ctx.iter_bound(ctx.n_bytes));
    loop {
        if *budget == 0 {
            return;
        }
        *budget -= 1;
        ctx.enter("tree.children.next");
        if !guard.step(ctx) {
            return;
        }
        match children.next() {
            Ok(Some(child)) => {
                ctx.item();
                walk_tree(ctx, child, depth + 1, budget, skip);
            }
            Ok(None) => {
                ctx.end();
                // the iterator remembers that it is exhausted
                match children.next() {
                    Ok(None) => {}
                    Ok(Some(_)) => {
                        if ctx.mon.c01 {
                            ctx.violate("fused", "EntriesTreeIter yielded a node after Ok(None)".into());
                        }
                    }
                    Err(e) => {
                        if ctx.mon.c01 {
                            ctx.violate("fused", format!("EntriesTreeIter returned {} after Ok(None)", crate::ctx::err_name(&e)));
                        }
                    }
                }
                return;
            }
            Err(e) => {
                ctx.err(&e);
                // an error-ignoring caller simply asks again
            }
        }
    }
}

/// Resolve attributes of one entry through every Dwarf-level helper.
fn resolve_entry<R: Reader<Offset = usize>>(
    ctx: &mut Ctx<'_>,
    dwarf: &Dwarf<R>,
    unit: &Unit<R>,
    e: &DebuggingInformationEntry<R>,
    n: usize,
) {
    let asz = unit.encoding().address_size;
    let ur = unit.unit_ref(dwarf);
    // entry-level accessors
    ctx.enter("entry.accessors");
    for name in [gimli::constants::DW_AT_name, gimli::constants::DW_AT_sibling, gimli::constants::DW_AT_location, gimli::constants::DW_AT_byte_size] {
        let has = e.has_attr(name);
        let by_attr = e.attr(name).map(|a| a.form());
        ev!(ctx, "  has_attr {:?} {} {:?}", name, has, by_attr);
        if let Some(v) = e.attr_value(name) {
            log_attr_value(ctx, "  attr_value", &v);
        }
        if let Some(v) = e.attr_value_raw(name) {
            log_attr_value(ctx, "  attr_value_raw", &v);
        }
    }
    match gimli::ValueType::from_entry(e) {
        Ok(t) => {
            ev!(ctx, "  value_type {:?}", t);
        }
        Err(err) => ctx.err(&err),
    }
    for a in e.attrs().iter().take(16) {
        let v = a.value();
        if let Some(x) = a.exprloc_value() {
            ctx.bytes_of("  exprloc_value", &x.0);
        }
        if let Some(x) = a.string_value(&dwarf.debug_str) {
            ctx.bytes_of("  string_value", &x);
        }
        if let Some(x) = a.string_value_sup(&dwarf.debug_str, dwarf.sup().map(|s| &s.debug_str)) {
            ctx.bytes_of("  string_value_sup", &x);
        }
        match &v {
            AttributeValue::DebugStrRef(o) => {
                if let Some(x) = call_q(ctx, "unit_ref.string", || ur.string(*o)) {
                    ctx.bytes_of("  ur.string", &x);
                }
            }
            AttributeValue::DebugStrRefSup(o) => {
                if let Some(x) = call_q(ctx, "unit_ref.sup_string", || ur.sup_string(*o)) {
                    ctx.bytes_of("  ur.sup_string", &x);
                }
            }
            AttributeValue::DebugLineStrRef(o) => {
                if let Some(x) = call_q(ctx, "unit_ref.line_string", || ur.line_string(*o)) {
                    ctx.bytes_of("  ur.line_string", &x);
                }
            }
            AttributeValue::DebugStrOffsetsIndex(i) => {
                let _ = call(ctx, "unit_ref.string_offset", || ur.string_offset(*i));
            }
            AttributeValue::DebugAddrIndex(i) => {
                let _ = call(ctx, "unit_ref.address", || ur.address(*i));
            }
            AttributeValue::DebugRngListsIndex(i) => {
                let _ = call(ctx, "unit_ref.ranges_offset", || ur.ranges_offset(*i));
            }
            AttributeValue::DebugLocListsIndex(i) => {
                let _ = call(ctx, "unit_ref.locations_offset", || ur.locations_offset(*i));
            }
            AttributeValue::RangeListsRef(o) => {
                ctx.enter("unit_ref.ranges_offset_from_raw");
                ev!(ctx, "  ranges_offset_from_raw {}", ur.ranges_offset_from_raw(*o).0);
            }
            AttributeValue::Addr(x) | AttributeValue::Udata(x) => {
                ev!(ctx, "  tombstone? {}", unit.is_tombstone_address(*x));
            }
            _ => {}
        }
        match &v {
            AttributeValue::String(_)
            | AttributeValue::DebugStrRef(_)
            | AttributeValue::DebugStrRefSup(_)
            | AttributeValue::DebugLineStrRef(_)
            | AttributeValue::DebugStrOffsetsIndex(_) => {
                if let Some(s) = call_q(ctx, "dwarf.attr_string", || dwarf.attr_string(unit, v.clone())) {
                    ctx.bytes_of("  string", &s);
                }
                if let Some(s) = call_q(ctx, "dwarf.attr_line_string", || dwarf.attr_line_string(v.clone())) {
                    ctx.bytes_of("  line_string", &s);
                }
            }
            AttributeValue::Addr(_) | AttributeValue::DebugAddrIndex(_) => {
                let _ = call(ctx, "dwarf.attr_address", || ur.attr_address(v.clone()));
            }
            AttributeValue::RangeListsRef(_) | AttributeValue::DebugRngListsIndex(_) => {
                let _ = call(ctx, "dwarf.attr_ranges_offset", || dwarf.attr_ranges_offset(unit, v.clone()));
                if let Some(Some(mut it)) = call_q(ctx, "dwarf.attr_ranges", || dwarf.attr_ranges(unit, v.clone())) {
                    drain(ctx, "dwarf.attr_ranges.next", n, Fused::No, || it.next(), |ctx, r| {
                        ev!(ctx, "  range {:#x}..{:#x}", r.begin, r.end);
                        check_range(ctx, &r, asz);
                    });
                }
            }
            AttributeValue::LocationListsRef(_) | AttributeValue::DebugLocListsIndex(_) => {
                let _ = call(ctx, "dwarf.attr_locations_offset", || dwarf.attr_locations_offset(unit, v.clone()));
                if let Some(Some(mut it)) = call_q(ctx, "dwarf.attr_locations", || dwarf.attr_locations(unit, v.clone())) {
                    drain(ctx, "dwarf.attr_locations.next", n, Fused::No, || it.next(), |ctx, l| {
                        ev!(ctx, "  loc {:#x}..{:#x}", l.range.begin, l.range.end);
                        ctx.bytes_of("   data", &l.data.0);
                        check_range(ctx, &l.range, asz);
                    });
                }
            }
            AttributeValue::DebugMacinfoRef(o) => {
                if let Some(mut it) = call_q(ctx, "dwarf.macinfo", || ur.macinfo(*o)) {
                    drain(ctx, "dwarf.macinfo.next", n, Fused::Yes, || it.next(), |ctx, m| log_macro_resolved(ctx, &m, ur));
                }
            }
            AttributeValue::DebugMacroRef(o) => {
                if let Some(mut it) = call_q(ctx, "dwarf.macros", || ur.macros(*o)) {
                    drain(ctx, "dwarf.macros.next", n, Fused::Yes, || it.next(), |ctx, m| log_macro_resolved(ctx, &m, ur));
                }
            }
            AttributeValue::UnitRef(o) => {
                ctx.enter("unit_offset.conversions");
                ev!(
                    ctx,
                    "  unitref {} in_bounds={} sect={:?} info={:?}",
                    o.0,
                    o.is_in_bounds(&unit.header),
                    o.to_unit_section_offset(&unit.header),
                    o.to_debug_info_offset(&unit.header)
                );
                if let Some(t) = call_q(ctx, "unit.entry", || unit.entry(*o)) {
                    log_entry(ctx, "  target", &t, false);
                }
            }
            AttributeValue::DebugInfoRef(o) => {
                ctx.enter("debug_info_offset.conversions");
                ev!(ctx, "  inforef {} -> unit_offset {:?}", o.0, o.to_unit_offset(&unit.header));
            }
            _ => {}
        }
    }
    // die_ranges: list form is held to the C08 invariant; the single low/high pair is
    // passed through unfiltered by design and is only logged.
    let has_list = e.attrs().iter().any(|a| {
        a.name() == gimli::constants::DW_AT_ranges
            && matches!(a.value(), AttributeValue::RangeListsRef(_) | AttributeValue::DebugRngListsIndex(_))
    });
    if let Some(mut it) = call_q(ctx, "dwarf.die_ranges", || dwarf.die_ranges(unit, e)) {
        drain(ctx, "dwarf.die_ranges.next", n, Fused::No, || it.next(), |ctx, r| {
            ev!(ctx, "  die_range {:#x}..{:#x}", r.begin, r.end);
            if has_list {
                check_range(ctx, &r, asz);
            }
        });
    }
}

fn log_macro_resolved<R: Reader<Offset = usize>>(ctx: &mut Ctx<'_>, m: &MacroEntry<R>, ur: gimli::UnitRef<'_, R>) {
    log_macro(ctx, m);
    let s = match m {
        MacroEntry::Define { text, .. } => Some(text),
        MacroEntry::Undef { name, .. } => Some(name),
        _ => None,
    };
    if let Some(s) = s {
        if let Ok(r) = s.string(ur) {
            ctx.bytes_of("  resolved", &r);
        }
    }
}

pub fn info<'a, R: Reader<Offset = usize> + 'a>(
    mk: &dyn Fn(&'a [u8]) -> R,
    case: &'a Case,
    ctx: &mut Ctx<'_>,
) {
    let n = ctx.n_bytes;
    let sel = case.knob("sel", 0) as u64;
    let mut dwarf = load_dwarf(mk, case, "");
    if case.knob("dwo", 0) != 0 {
        dwarf.file_type = DwarfFileType::Dwo;
    }
    if case.knob("sup", 0) != 0 {
        let sup = load_dwarf(mk, case, "sup_");
        dwarf.set_sup(sup);
        ctx.probe("dwarf_with_sup");
    }
    let info_len = case.sec("debug_info").len();
    // legitimately super-linear: units x abbreviation-table length
    let units_est = (info_len / 11 + 1) as u64;
    let abbrev_len = case.sec("debug_abbrev").len() as u64 + 1;
    match case.knob("cache", 0) {
        1 => {
            ctx.enter_with_budget("dwarf.populate_abbreviations_cache", 64 * units_est * abbrev_len + (1 << 20));
            dwarf.populate_abbreviations_cache(AbbreviationsCacheStrategy::Duplicates);
            ctx.probe("abbrev_cache_duplicates");
        }
        2 => {
            ctx.enter_with_budget("dwarf.populate_abbreviations_cache", 64 * units_est * abbrev_len + (1 << 20));
            dwarf.populate_abbreviations_cache(AbbreviationsCacheStrategy::All);
            ctx.probe("abbrev_cache_all");
        }
        _ => {}
    }

    let mut headers: Vec<UnitHeader<R>> = Vec::new();
    let mut it = dwarf.units();
    drain(ctx, "info.units.next", info_len, Fused::No, || it.next(), |ctx, h| {
        log_header(ctx, &h);
        if headers.len() < 4 {
            headers.push(h);
        }
    });
    let types_len = case.sec("debug_types").len();
    let mut it = dwarf.type_units();
    drain(ctx, "types.units.next", types_len, Fused::No, || it.next(), |ctx, h| {
        log_header(ctx, &h);
        if headers.len() < 5 {
            headers.push(h);
        }
    });
    // positioned header reads
    let lad = ladder(info_len as u64);
    let mut hoffs: Vec<usize> = headers.iter().filter_map(|h| h.debug_info_offset().map(|o| o.0)).collect();
    hoffs.push(lad[(sel % lad.len() as u64) as usize] as usize);
    hoffs.push(1);
    for off in hoffs {
        if let Some(h) = call_q(ctx, "dwarf.unit_header", || dwarf.unit_header(DebugInfoOffset(off))) {
            log_header(ctx, &h);
        }
    }
    // standalone abbreviation parse at boundary offsets
    let abbrev = DebugAbbrev::from(mk(case.sec("debug_abbrev")));
    for off in [0usize, 1, abbrev_len as usize, (sel >> 3) as usize % (abbrev_len as usize + 2)] {
        ctx.enter("abbrev.abbreviations");
        match abbrev.abbreviations(gimli::DebugAbbrevOffset(off)) {
            Ok(a) => {
                ctx.item();
                for code in [0u64, 1, 2, 3, 100, u64::MAX, 1 << 32] {
                    if let Some(ab) = a.get(code) {
                        ev!(ctx, "abbrev@{} {} tag={:?} children={} nattrs={}", off, ab.code(), ab.tag(), ab.has_children(), ab.attributes().len());
                    }
                }
            }
            Err(e) => ctx.err(&e),
        }
    }

    for (ui, header) in headers.iter().enumerate() {
        let abbrevs: Arc<gimli::Abbreviations> = match call_q(ctx, "dwarf.abbreviations", || dwarf.abbreviations(header)) {
            Some(a) => a,
            None => continue,
        };
        // 1. raw entries, the documented way: stop at the first error
        let mut offsets: Vec<usize> = Vec::new();
        let mut entries: Vec<DebuggingInformationEntry<R>> = Vec::new();
        if let Some(mut raw) = call_q(ctx, "unit.entries_raw", || header.entries_raw(&abbrevs, None)) {
            let mut entry = DebuggingInformationEntry::null();
            let mut guard = LoopGuard::new(ctx.iter_bound(info_len));
            while !raw.is_empty() {
                ctx.enter("raw.read_entry");
                if !guard.step(ctx) {
                    break;
                }
                let (no, nd) = (raw.next_offset().0, raw.next_depth());
                match raw.read_entry(&mut entry) {
                    Ok(true) => {
                        ctx.item();
                        ev!(ctx, "raw next_off={} next_depth={}", no, nd);
                        log_entry(ctx, "raw", &entry, ui == 0 && entries.len() < 12);
                        if offsets.len() < 64 {
                            offsets.push(entry.offset().0);
                        }
                        if entries.len() < 12 {
                            entries.push(entry.clone());
                        }
                    }
                    Ok(false) => {
                        ev!(ctx, "raw null off={} depth={}", entry.offset().0, entry.depth());
                    }
                    Err(e) => {
                        ctx.err(&e);
                        break;
                    }
                }
            }
        }
        // 1b. raw with read_abbreviation + skip_attributes / read_attribute
        if let Some(mut raw) = call_q(ctx, "unit.entries_raw", || header.entries_raw(&abbrevs, None)) {
            let mut guard = LoopGuard::new(ctx.iter_bound(info_len));
            let mut k = 0u64;
            while !raw.is_empty() {
                ctx.enter("raw.read_abbreviation");
                if !guard.step(ctx) {
                    break;
                }
                match raw.read_abbreviation() {
                    Ok(Some(ab)) => {
                        ctx.item();
                        k += 1;
                        let r = if (k + sel) % 4 == 0 {
                            ctx.enter("raw.skip_attributes");
                            raw.skip_attributes(ab.attributes())
                        } else if (k + sel) % 4 == 1 {
                            ctx.enter("raw.read_attributes");
                            let mut v = Vec::new();
                            let r = raw.read_attributes(ab.attributes(), &mut v);
                            ev!(ctx, "raw read_attributes n={}", v.len());
                            r
                        } else if (k + sel) % 4 == 2 {
                            ctx.enter("raw.read_attribute_inline");
                            let mut r = Ok(());
                            for spec in ab.attributes() {
                                match raw.read_attribute_inline(*spec) {
                                    Ok(_) => {}
                                    Err(e) => {
                                        r = Err(e);
                                        break;
                                    }
                                }
                            }
                            r
                        } else {
                            ctx.enter("raw.read_attribute");
                            let mut r = Ok(());
                            for spec in ab.attributes() {
                                match raw.read_attribute(*spec) {
                                    Ok(_) => {}
                                    Err(e) => {
                                        r = Err(e);
                                        break;
                                    }
                                }
                            }
                            r
                        };
                        ev!(ctx, "raw2 code={} next_off={}", ab.code(), raw.next_offset().0);
                        if let Err(e) = r {
                            ctx.err(&e);
                            break;
                        }
                    }
                    Ok(None) => {}
                    Err(e) => {
                        ctx.err(&e);
                        break;
                    }
                }
            }
        }
        // 2. cursor: next_entry (Ok(false) ends), next_dfs
        {
            let mut cur = header.entries(&abbrevs);
            drain(
                ctx,
                "cursor.next_entry",
                info_len,
                Fused::No,
                || cur.next_entry().map(|b| if b { Some((cur.offset().0, cur.depth(), cur.current().is_some(), cur.next_offset().0, cur.next_depth())) } else { None }),
                |ctx, x| {
                    ev!(ctx, "cursor {:?}", x);
                },
            );
            let mut cur = header.entries(&abbrevs);
            drain(
                ctx,
                "cursor.next_dfs",
                info_len,
                Fused::No,
                || cur.next_dfs().map(|o| o.map(|e| (e.offset().0, e.depth(), e.tag()))),
                |ctx, x| {
                    ev!(ctx, "dfs {:?}", x);
                },
            );
            // 3. siblings of the root's first child
            let mut cur = header.entries(&abbrevs);
            ctx.enter("cursor.next_dfs");
            let _ = cur.next_dfs();
            ctx.enter("cursor.next_dfs");
            let _ = cur.next_dfs();
            drain(
                ctx,
                "cursor.next_sibling",
                info_len,
                Fused::No,
                || cur.next_sibling().map(|o| o.map(|e| (e.offset().0, e.depth(), e.tag()))),
                |ctx, x| {
                    ev!(ctx, "sibling {:?}", x);
                },
            );
            // sticky Ok(None) after the end of a sibling list
            ctx.enter("cursor.next_sibling");
            match cur.next_sibling() {
                Ok(None) => {}
                Ok(Some(_)) => {
                    if ctx.mon.c01 {
                        ctx.violate("fused", "next_sibling yielded an entry after Ok(None)".into());
                    }
                }
                Err(_) => {}
            }
        }
        // 4. tree
        ctx.enter("unit.entries_tree");
        match header.entries_tree(&abbrevs, None) {
            Ok(mut tree) => {
                for round in 0..2u64 {
                    ctx.enter("tree.root");
                    match tree.root() {
                        Ok(root) => {
                            ctx.item();
                            let mut budget = 4096u64;
                            walk_tree(ctx, root, 0, &mut budget, round * (sel | 1));
                        }
                        Err(e) => ctx.err(&e),
                    }
                }
            }
            Err(e) => ctx.err(&e),
        }
        // 5. positioned reads at recorded and boundary offsets
        let mut probe_offs: Vec<usize> = offsets.iter().copied().take(6).collect();
        let ul = header.length_including_self();
        let lad = ladder(ul as u64);
        probe_offs.push(lad[((sel >> 5) % lad.len() as u64) as usize] as usize);
        probe_offs.push(header.header_size());
        probe_offs.push(header.header_size().wrapping_sub(1));
        probe_offs.push(ul);
        for &o in &probe_offs {
            if let Some(e) = call_q(ctx, "unit.entry", || header.entry(&abbrevs, UnitOffset(o))) {
                log_entry(ctx, "entry@", &e, false);
            }
            if let Some(mut cur) = call_q(ctx, "unit.entries_at_offset", || header.entries_at_offset(&abbrevs, UnitOffset(o))) {
                ctx.enter("cursor.next_dfs");
                match cur.next_dfs() {
                    Ok(Some(e)) => {
                        let x = (e.offset().0, e.depth(), e.tag());
                        ev!(ctx, "at_offset {:?}", x);
                    }
                    Ok(None) => {}
                    Err(e) => ctx.err(&e),
                }
            }
            if let Some(mut tree) = call_q(ctx, "unit.entries_tree", || header.entries_tree(&abbrevs, Some(UnitOffset(o)))) {
                ctx.enter("tree.root");
                match tree.root() {
                    Ok(root) => {
                        let mut budget = 64u64;
                        walk_tree(ctx, root, 140, &mut budget, 0);
                    }
                    Err(e) => ctx.err(&e),
                }
            }
            if let Some(r) = call_q(ctx, "unit.range_from", || header.range_from(UnitOffset(o)..)) {
                ev!(ctx, "range_from {} len={}", o, r.len());
            }
            if let Some(r) = call_q(ctx, "unit.range_to", || header.range_to(..UnitOffset(o))) {
                ev!(ctx, "range_to {} len={}", o, r.len());
            }
            let o2 = o.saturating_add(((sel >> 9) % 7) as usize);
            if let Some(r) = call_q(ctx, "unit.range", || header.range(UnitOffset(o)..UnitOffset(o2))) {
                ev!(ctx, "range {}..{} len={}", o, o2, r.len());
            }
            // the two ends in the other order (offsets a caller takes from two attributes)
            if let Some(r) = call_q(ctx, "unit.range", || header.range(UnitOffset(o2)..UnitOffset(o))) {
                ev!(ctx, "range {}..{} len={}", o2, o, r.len());
            }
            // EntriesRaw::new: "`offset` may be any value"
            if let Ok(input) = header.range_from(UnitOffset(header.header_size())..) {
                ctx.enter("raw.new");
                let raw = gimli::EntriesRaw::new(input, header.encoding(), &abbrevs, UnitOffset(o));
                ev!(ctx, "raw.new next_offset={} empty={}", raw.next_offset().0, raw.is_empty());
            }
        }
        // 6. Unit construction + Dwarf-level resolution
        let unit = match call_q(ctx, "dwarf.unit", || dwarf.unit(header.clone())) {
            Some(u) => u,
            None => continue,
        };
        ev!(
            ctx,
            "Unit low_pc={:#x} str_off_base={} addr_base={} loclists_base={} rnglists_base={} dwo_id={:?} has_line={}",
            unit.low_pc,
            unit.str_offsets_base.0,
            unit.addr_base.0,
            unit.loclists_base.0,
            unit.rnglists_base.0,
            unit.dwo_id,
            unit.line_program.is_some()
        );
        if let Some(nm) = &unit.name {
            ctx.bytes_of("  name", nm);
        }
        ev!(ctx, "  debug_types_offset={:?} debug_info_offset={:?}", header.debug_types_offset().map(|o| o.0), header.debug_info_offset().map(|o| o.0));
        if let Some(o) = header.debug_info_offset() {
            if let Some(h2) = call_q(ctx, "debug_info.header_from_offset", || dwarf.debug_info.header_from_offset(o)) {
                ev!(ctx, "  header_from_offset len={} enc={:?}", h2.unit_length(), h2.encoding());
            }
            let o1 = gimli::DebugInfoOffset(o.0.wrapping_add(1 + (sel as usize >> 11) % 5));
            let _ = call(ctx, "debug_info.header_from_offset", || dwarf.debug_info.header_from_offset(o1).map(|h| h.unit_length()));
        }
        if let Some(u2) = call_q(ctx, "unit.new_with_abbreviations", || gimli::Unit::new_with_abbreviations(&dwarf, header.clone(), unit.abbreviations.clone())) {
            ev!(ctx, "  new_with_abbreviations low_pc={:#x} addr_base={}", u2.low_pc, u2.addr_base.0);
        }
        if let Some(d) = &unit.comp_dir {
            ctx.bytes_of("  comp_dir", d);
        }
        if let Some(Some(v)) = call_q(ctx, "unit.dwo_name", || unit.dwo_name()) {
            log_attr_value(ctx, "  dwo_name", &v);
        }
        if let Some(mut it) = call_q(ctx, "dwarf.unit_ranges", || dwarf.unit_ranges(&unit)) {
            drain(ctx, "dwarf.unit_ranges.next", n, Fused::No, || it.next(), |ctx, r| {
                ev!(ctx, "  unit_range {:#x}..{:#x}", r.begin, r.end);
            });
        }
        for e in entries.iter() {
            resolve_entry(ctx, &dwarf, &unit, e, n);
        }
        // 7. the unit's line program
        if let Some(prog) = unit.line_program.clone() {
            if ui < 2 {
                super::line::log_header(ctx, prog.header());
            }
            for (i, f) in prog.header().file_names().iter().enumerate().take(4) {
                if let Some(s) = call_q(ctx, "dwarf.attr_string", || dwarf.attr_string(&unit, f.path_name())) {
                    ctx.bytes_of(&format!("  file[{}] path", i), &s);
                }
            }
            let asz = prog.header().address_size();
            let mut rows = prog.rows();
            let mut mon = RowMonitor::new(asz);
            drain(
                ctx,
                "unit.line.rows.next_row",
                n,
                Fused::No,
                || rows.next_row().map(|o| o.map(|(_, r)| *r)),
                |ctx, r| mon.row(ctx, &r),
            );
        }
    }
    // error formatting path
    for e in [Error::Io, Error::BadUtf8] {
        ctx.enter("dwarf.format_error");
        let s = dwarf.format_error(e);
        ev!(ctx, "format_error {}", s);
    }
}
