//! Driver for the read->write converters (C01: "return a value or an error, never
//! panic/hang" under arbitrary input and faults). Semantic equality of conversion is C12
//! and is deliberately not checked here.

use super::cfi::bases_of;
use super::info::load_dwarf;
use crate::case::Case;
use crate::ctx::Ctx;
use crate::ev;
use gimli::write::{self, Address, EndianVec, Sections, Writer};
use gimli::{DebugFrame, EhFrame, Reader, RunTimeEndian};
use std::cell::Cell;

/// Output storage seam: a sink that can fail at write k.
#[derive(Clone)]
pub struct FaultWriter {
    inner: EndianVec<RunTimeEndian>,
    fail_at: i64,
    count: std::rc::Rc<Cell<i64>>,
    sim: Option<std::rc::Rc<crate::fault::SimState>>,
}

impl FaultWriter {
    pub fn new(endian: RunTimeEndian, fail_at: i64) -> Self {
        FaultWriter { inner: EndianVec::new(endian), fail_at, count: std::rc::Rc::new(Cell::new(0)), sim: None }
    }
    /// A sink that also runs the simulator's stack-depth probe on every write.
    pub fn probed(endian: RunTimeEndian, fail_at: i64, sim: &std::rc::Rc<crate::fault::SimState>) -> Self {
        FaultWriter { sim: Some(sim.clone()), ..FaultWriter::new(endian, fail_at) }
    }
    fn gate(&self) -> write::Result<()> {
        if let Some(sim) = &self.sim {
            sim.probe_stack();
        }
        let n = self.count.get();
        self.count.set(n + 1);
        if self.fail_at >= 0 && n >= self.fail_at {
            Err(write::Error::OffsetOutOfBounds)
        } else {
            Ok(())
        }
    }
}

impl Writer for FaultWriter {
    type Endian = RunTimeEndian;
    fn endian(&self) -> RunTimeEndian {
        self.inner.endian()
    }
    fn len(&self) -> usize {
        self.inner.len()
    }
    fn write(&mut self, bytes: &[u8]) -> write::Result<()> {
        self.gate()?;
        self.inner.write(bytes)
    }
    fn write_at(&mut self, offset: usize, bytes: &[u8]) -> write::Result<()> {
        self.gate()?;
        self.inner.write_at(offset, bytes)
    }
}

/// Target encodings for a converted line program: the source's own, or a different
/// version / format chosen by the caller (a supported use of the converter).
fn target_encodings(sel: u64, from: gimli::Encoding) -> (Option<gimli::Encoding>, Option<gimli::LineEncoding>) {
    let enc = match (sel >> 3) & 3 {
        0 | 1 => None,
        2 => Some(gimli::Encoding { version: if from.version >= 5 { 4 } else { 5 }, ..from }),
        _ => Some(gimli::Encoding {
            version: 2 + ((sel >> 5) % 4) as u16,
            format: if (sel >> 7) & 1 == 0 { gimli::Format::Dwarf32 } else { gimli::Format::Dwarf64 },
            address_size: from.address_size,
        }),
    };
    let lenc = if (sel >> 8) & 3 == 0 { Some(gimli::LineEncoding::default()) } else { None };
    (enc, lenc)
}

/// The body of `ConvertUnit::convert`, spelled out through the public pieces as in the
/// documentation's example.
fn stepwise_unit<'a, R: Reader<Offset = usize>>(
    unit: &mut write::ConvertUnit<'a, R>,
    root: write::ConvertUnitEntry<'a, R>,
    convert_address: &dyn Fn(u64) -> Option<Address>,
    sel: u64,
) -> write::ConvertResult<()> {
    let (enc, lenc) = target_encodings(sel, unit.read_unit.encoding());
    // the caller may re-encode the unit (another version / format): a supported use
    if let Some(enc) = enc {
        if (sel >> 13) & 1 == 1 {
            unit.unit.set_encoding(enc);
        }
    }
    if let Some(program) = unit.read_line_program(None, lenc)? {
        let (program, files) = program.convert(convert_address)?;
        unit.set_line_program(program, files);
    }
    let root_id = unit.unit.root();
    stepwise_attrs(unit, root_id, &root, convert_address)?;
    let mut entry = root;
    while let Some(id) = unit.read_entry(&mut entry)? {
        if id.is_none() {
            continue;
        }
        let id = unit.add_entry(id, &entry);
        stepwise_attrs(unit, id, &entry, convert_address)?;
    }
    Ok(())
}

fn stepwise_attrs<R: Reader<Offset = usize>>(
    unit: &mut write::ConvertUnit<'_, R>,
    id: write::UnitEntryId,
    entry: &write::ConvertUnitEntry<'_, R>,
    convert_address: &dyn Fn(u64) -> Option<Address>,
) -> write::ConvertResult<()> {
    for attr in &entry.attrs {
        let value = unit.convert_attribute_value(entry.read_unit, attr, convert_address)?;
        unit.unit.get_mut(id).set(attr.name(), value);
    }
    Ok(())
}

pub fn convert<'a, R: Reader<Offset = usize> + 'a>(mk: &dyn Fn(&'a [u8]) -> R, case: &'a Case, ctx: &mut Ctx<'_>) {
    let n = ctx.n_bytes as u64;
    let sel = case.knob("sel", 0) as u64;
    let endian = super::endian_of(case);
    // legitimately super-linear whole-structure calls
    let budget = 64 * (n + 1) * (n / 4 + 1) + (1 << 20);
    let addr_fail_at = case.knob("addr_fail_at", -1);
    let calls = Cell::new(0i64);
    let convert_address = |a: u64| -> Option<Address> {
        let k = calls.get();
        calls.set(k + 1);
        if addr_fail_at >= 0 && k == addr_fail_at {
            None
        } else {
            Some(Address::Constant(a))
        }
    };
    let write_fail_at = case.knob("write_fail_at", -1);
    let mut dwarf = load_dwarf(mk, case, "");
    if case.knob("dwo", 0) != 0 {
        dwarf.file_type = gimli::DwarfFileType::Dwo;
    }

    // 1. whole-file conversion, then serialisation into the sink
    ctx.enter_with_budget("write.Dwarf.from", budget);
    match write::Dwarf::from(&dwarf, &convert_address) {
        Ok(mut w) => {
            ctx.item();
            ev!(ctx, "converted units={}", w.units.count());
            let mut sections = Sections::new(FaultWriter::probed(endian, write_fail_at, &ctx.sim));
            ctx.enter_with_budget("write.Dwarf.write", budget);
            match w.write(&mut sections) {
                Ok(()) => {
                    ctx.item();
                    ev!(ctx, "written info={} abbrev={} line={}", sections.debug_info.0.len(), sections.debug_abbrev.0.len(), sections.debug_line.0.len());
                }
                Err(e) => {
                    ctx.errs += 1;
                    ev!(ctx, "write error {:?}", e);
                }
            }
        }
        Err(e) => {
            ctx.errs += 1;
            ev!(ctx, "convert error {:?}", std::mem::discriminant(&e));
        }
    }

    // 2. filtered, stepwise conversion
    ctx.enter_with_budget("write.FilterUnitSection", budget);
    let filtered = (|| -> write::ConvertResult<usize> {
        let mut filter = write::FilterUnitSection::new(&dwarf)?;
        let mut k = 0u64;
        while let Some(mut unit) = filter.read_unit()? {
            let mut entry = unit.null_entry();
            while unit.read_entry(&mut entry)? {
                k += 1;
                if (k + sel) % 3 == 0 {
                    unit.require_entry(entry.offset);
                }
            }
        }
        let mut out = write::Dwarf::default();
        let mut conv = out.convert_with_filter(filter)?;
        let mut units = 0;
        while let Some((mut unit, root)) = conv.read_unit()? {
            unit.convert(root, &convert_address)?;
            units += 1;
        }
        let mut sections = Sections::new(FaultWriter::probed(endian, write_fail_at, &ctx.sim));
        out.write(&mut sections).map_err(write::ConvertError::Write)?;
        Ok(units)
    })();
    match filtered {
        Ok(u) => {
            ctx.item();
            ev!(ctx, "filtered units={}", u);
        }
        Err(e) => {
            ctx.errs += 1;
            ev!(ctx, "filter error {:?}", std::mem::discriminant(&e));
        }
    }

    // 3. the documented stepwise loop: every unit converted entry by entry through the
    //    public pieces (`read_line_program`, `read_entry`, `add_entry`,
    //    `convert_attribute_value`), then written at once, skipped or left to
    //    `Dwarf::write`; skeleton units are completed from the DWO file when the case has one
    let has_split = case.secs.contains_key("dwo_debug_info");
    let mut split_dwarf = load_dwarf(mk, case, "dwo_");
    split_dwarf.make_dwo(&dwarf);
    ctx.enter_with_budget("write.ConvertUnit.stepwise", budget);
    let stepwise = (|| -> write::ConvertResult<(usize, usize, u64)> {
        let mut out = write::Dwarf::new();
        let mut sections = Sections::new(FaultWriter::probed(endian, write_fail_at, &ctx.sim));
        let (mut units, mut splits) = (0usize, 0usize);
        let mut helper_oks = 0u64;
        let mut unit_write_failed = false;
        {
            let mut conv = out.convert(&dwarf)?;
            while let Some((mut unit, root)) = conv.read_unit()? {
                units += 1;
                let mode = (sel >> (2 * (units as u64 % 16))) & 3;
                if has_split && unit.read_unit.dwo_id.is_some() && mode != 3 {
                    splits += 1;
                    let mut cs = if mode == 0 {
                        let mut filter = write::FilterUnitSection::new_split(&split_dwarf, unit.read_unit)?;
                        let mut k = 0u64;
                        while let Some(mut funit) = filter.read_unit()? {
                            let mut entry = funit.null_entry();
                            while funit.read_entry(&mut entry)? {
                                k += 1;
                                if (k + sel) % 2 == 0 {
                                    funit.require_entry(entry.offset);
                                }
                            }
                        }
                        unit.convert_split_with_filter(filter)?
                    } else {
                        unit.convert_split(&split_dwarf)?
                    };
                    let (mut sunit, sroot) = cs.read_unit()?;
                    if mode == 1 {
                        sunit.convert(sroot, &convert_address)?;
                    } else {
                        stepwise_unit(&mut sunit, sroot, &convert_address, sel)?;
                    }
                    continue;
                }
                stepwise_unit(&mut unit, root, &convert_address, sel)?;
                helper_oks += direct_helpers(&unit, &convert_address, n);
                match mode {
                    1 => {
                        // a failed per-unit write is ignored by this caller: the remaining units
                        // are still converted and `Dwarf::write` is still called at the end, as
                        // the documentation of `ConvertUnit::write` requires
                        if unit.write(&mut sections).is_err() {
                            unit_write_failed = true;
                        }
                    }
                    2 => unit.skip(),
                    _ => {}
                }
            }
        }
        let _ = unit_write_failed;
        out.write(&mut sections).map_err(write::ConvertError::Write)?;
        Ok((units, splits, helper_oks))
    })();
    match stepwise {
        Ok((u, sp, h)) => {
            ctx.item();
            ev!(ctx, "helpers ok={}", h);
            if sp > 0 {
                ctx.probe("convert_split_ok");
            }
            ev!(ctx, "stepwise units={} split={}", u, sp);
        }
        Err(e) => {
            ctx.errs += 1;
            ev!(ctx, "stepwise error {:?}", std::mem::discriminant(&e));
        }
    }

    // 4. a line program without a unit: read row by row, sequence by sequence, or converted
    //    as a whole
    ctx.enter_with_budget("write.Dwarf.read_line_program", budget);
    let asz0 = case.knob("addr_size", 8) as u8;
    let standalone = (|| -> write::ConvertResult<(usize, usize)> {
        let program = dwarf.debug_line.program(gimli::DebugLineOffset(0), asz0, None, None)?;
        let mut out = write::Dwarf::new();
        let (enc, lenc) = target_encodings(sel, program.header().encoding());
        let mut conv = out.read_line_program(&dwarf, program, enc, lenc)?;
        let mut n = 0usize;
        match sel % 3 {
            0 => {
                while let Some(seq) = conv.read_sequence()? {
                    n += 1 + seq.rows.len();
                }
            }
            1 => {
                while let Some(_row) = conv.read_row()? {
                    n += 1;
                }
            }
            _ => {
                let (_program, files) = conv.convert(&convert_address)?;
                return Ok((0, files.len()));
            }
        }
        let in_seq = conv.in_sequence();
        let (_program, files) = conv.program();
        let _ = in_seq;
        Ok((n, files.len()))
    })();
    match standalone {
        Ok((rows, files)) => {
            ctx.item();
            ev!(ctx, "standalone line rows={} files={}", rows, files);
        }
        Err(e) => {
            ctx.errs += 1;
            ev!(ctx, "standalone line error {:?}", std::mem::discriminant(&e));
        }
    }

    // 4b. the converters' own lazy `read_*` methods under a caller that ignores errors and
    //     keeps calling (the documented loops, minus the `?`): each must reach Ok(None) within
    //     a number of calls bounded by the input size
    lazy_converters(&dwarf, case, ctx, &convert_address, sel, asz0);

    // 5. frame tables
    let asz = case.knob("addr_size", 8) as u8;
    let _ = bases_of(case);
    let mut eh = EhFrame::from(mk(case.sec("eh_frame")));
    eh.set_address_size(asz);
    ctx.enter_with_budget("write.FrameTable.from(eh_frame)", budget);
    match write::FrameTable::from(&eh, &convert_address) {
        Ok(t) => {
            ctx.item();
            ev!(ctx, "frame_table cies={} fdes={}", t.cie_count(), t.fde_count());
            let mut out = write::EhFrame(FaultWriter::probed(endian, write_fail_at, &ctx.sim));
            ctx.enter_with_budget("write.FrameTable.write_eh_frame", budget);
            match t.write_eh_frame(&mut out) {
                Ok(()) => ctx.item(),
                Err(e) => {
                    ctx.errs += 1;
                    ev!(ctx, "write error {:?}", e);
                }
            }
            let mut out = write::DebugFrame(FaultWriter::probed(endian, write_fail_at, &ctx.sim));
            ctx.enter_with_budget("write.FrameTable.write_debug_frame", budget);
            match t.write_debug_frame(&mut out) {
                Ok(()) => ctx.item(),
                Err(e) => {
                    ctx.errs += 1;
                    ev!(ctx, "write error {:?}", e);
                }
            }
        }
        Err(e) => {
            ctx.errs += 1;
            ev!(ctx, "frame convert error {:?}", std::mem::discriminant(&e));
        }
    }
    let mut df = DebugFrame::from(mk(case.sec("debug_frame")));
    df.set_address_size(asz);
    ctx.enter_with_budget("write.FrameTable.from(debug_frame)", budget);
    match write::FrameTable::from(&df, &convert_address) {
        Ok(t) => {
            ctx.item();
            ev!(ctx, "frame_table cies={} fdes={}", t.cie_count(), t.fde_count());
            let mut out = write::DebugFrame(FaultWriter::probed(endian, write_fail_at, &ctx.sim));
            ctx.enter_with_budget("write.FrameTable.write_debug_frame", budget);
            match t.write_debug_frame(&mut out) {
                Ok(()) => ctx.item(),
                Err(e) => {
                    ctx.errs += 1;
                    ev!(ctx, "write error {:?}", e);
                }
            }
        }
        Err(e) => {
            ctx.errs += 1;
            ev!(ctx, "frame convert error {:?}", std::mem::discriminant(&e));
        }
    }
}

/// Error-ignoring caller over `ConvertLineProgram::{read_row, read_sequence}`,
/// `FilterUnitSection::read_unit` / `FilterUnit::read_entry` and
/// `ConvertUnitSection::read_unit` / `ConvertUnit::read_entry`.
fn lazy_converters<R: Reader<Offset = usize>>(
    dwarf: &gimli::Dwarf<R>,
    case: &Case,
    ctx: &mut Ctx<'_>,
    _convert_address: &dyn Fn(u64) -> Option<Address>,
    sel: u64,
    asz0: u8,
) {
    use crate::ctx::LoopGuard;
    let n_line = case.sec("debug_line").len();
    let n_info = case.sec("debug_info").len() + case.sec("debug_abbrev").len();
    let budget = 64 * (n_info as u64 + n_line as u64 + 1) + (1 << 20);

    // line rows / sequences, following the documented example
    if let Ok(program) = dwarf.debug_line.program(gimli::DebugLineOffset(0), asz0, None, None) {
        let mut out = write::Dwarf::new();
        let (enc, lenc) = target_encodings(sel, program.header().encoding());
        ctx.enter_with_budget("write.ConvertLineProgram.new", budget);
        if let Ok(mut conv) = out.read_line_program(dwarf, program, enc, lenc) {
            let by_seq = (sel >> 11) & 1 == 0;
            let api = if by_seq { "write.ConvertLineProgram.read_sequence" } else { "write.ConvertLineProgram.read_row" };
            let mut guard = LoopGuard::new(ctx.iter_bound(n_line));
            loop {
                ctx.enter_with_budget(api, budget);
                if !guard.step(ctx) {
                    break;
                }
                if by_seq {
                    match conv.read_sequence() {
                        Ok(Some(seq)) => {
                            ctx.item();
                            ev!(ctx, "seq rows={}", seq.rows.len());
                            // add it to the converted program the documented way: every row is
                            // checked before it is generated (rows that fail the check are
                            // skipped by this caller, who ignores errors)
                            if let Some(start) = seq.start {
                                match _convert_address(start) {
                                    Some(a) => conv.set_address(a),
                                    None => continue,
                                }
                            }
                            for row in seq.rows {
                                if conv.check_advance(row.address_offset, row.op_index).is_ok() {
                                    conv.generate_row(row);
                                }
                            }
                            if let write::ConvertLineSequenceEnd::Length(length) = seq.end {
                                if conv.check_end_sequence(length).is_ok() {
                                    conv.end_sequence(length);
                                }
                            }
                        }
                        Ok(None) => {
                            ctx.end();
                            break;
                        }
                        Err(e) => {
                            ctx.errs += 1;
                            ev!(ctx, "err {:?}", std::mem::discriminant(&e));
                        }
                    }
                } else {
                    match conv.read_row() {
                        Ok(Some(row)) => {
                            ctx.item();
                            match row {
                                write::ConvertLineRow::SetAddress(a) => {
                                    if let Some(a) = _convert_address(a) {
                                        conv.set_address(a);
                                    }
                                }
                                write::ConvertLineRow::Row(row) => {
                                    if conv.check_advance(row.address_offset, row.op_index).is_ok() {
                                        conv.generate_row(row);
                                    }
                                }
                                write::ConvertLineRow::EndSequence(length) => {
                                    if conv.check_end_sequence(length).is_ok() {
                                        conv.end_sequence(length);
                                    }
                                }
                            }
                        }
                        Ok(None) => {
                            ctx.end();
                            break;
                        }
                        Err(e) => {
                            ctx.errs += 1;
                            ev!(ctx, "err {:?}", std::mem::discriminant(&e));
                        }
                    }
                }
            }
        }
    }

    // filter pass: units and entries
    ctx.enter_with_budget("write.FilterUnitSection.new", budget);
    if let Ok(mut filter) = write::FilterUnitSection::new(dwarf) {
        let mut ug = LoopGuard::new(ctx.iter_bound(n_info));
        loop {
            ctx.enter_with_budget("write.FilterUnitSection.read_unit", budget);
            if !ug.step(ctx) {
                break;
            }
            match filter.read_unit() {
                Ok(Some(mut unit)) => {
                    ctx.item();
                    let mut entry = unit.null_entry();
                    let mut eg = LoopGuard::new(ctx.iter_bound(n_info));
                    loop {
                        ctx.enter_with_budget("write.FilterUnit.read_entry", budget);
                        if !eg.step(ctx) {
                            break;
                        }
                        match unit.read_entry(&mut entry) {
                            Ok(true) => ctx.item(),
                            Ok(false) => {
                                ctx.end();
                                break;
                            }
                            Err(e) => {
                                ctx.errs += 1;
                                ev!(ctx, "err {:?}", std::mem::discriminant(&e));
                            }
                        }
                    }
                }
                Ok(None) => {
                    ctx.end();
                    break;
                }
                Err(e) => {
                    ctx.errs += 1;
                    ev!(ctx, "err {:?}", std::mem::discriminant(&e));
                }
            }
        }
    }

    // conversion pass: units and entries
    let mut out = write::Dwarf::new();
    ctx.enter_with_budget("write.Dwarf.convert", budget);
    if let Ok(mut conv) = out.convert(dwarf) {
        let mut ug = LoopGuard::new(ctx.iter_bound(n_info));
        loop {
            ctx.enter_with_budget("write.ConvertUnitSection.read_unit", budget);
            if !ug.step(ctx) {
                break;
            }
            match conv.read_unit() {
                Ok(Some((mut unit, root))) => {
                    ctx.item();
                    let mut entry = root;
                    let mut eg = LoopGuard::new(ctx.iter_bound(n_info));
                    loop {
                        ctx.enter_with_budget("write.ConvertUnit.read_entry", budget);
                        if !eg.step(ctx) {
                            break;
                        }
                        match unit.read_entry(&mut entry) {
                            Ok(Some(_)) => ctx.item(),
                            Ok(None) => {
                                ctx.end();
                                break;
                            }
                            Err(e) => {
                                ctx.errs += 1;
                                ev!(ctx, "err {:?}", std::mem::discriminant(&e));
                            }
                        }
                    }
                }
                Ok(None) => {
                    ctx.end();
                    break;
                }
                Err(e) => {
                    ctx.errs += 1;
                    ev!(ctx, "err {:?}", std::mem::discriminant(&e));
                }
            }
        }
    }
}

/// The public single-value converters of `ConvertUnit`, called directly with caller-chosen
/// offsets and indexes from the boundary ladder (they must answer with a value or an error).
fn direct_helpers<R: Reader<Offset = usize>>(
    unit: &write::ConvertUnit<'_, R>,
    convert_address: &dyn Fn(u64) -> Option<Address>,
    n: u64,
) -> u64 {
    let ru = unit.read_unit;
    let mut oks = 0u64;
    for x in super::ladder(n).into_iter().chain([2, 3, 4, 7, 11, 12, 16, 23, 24, 32].into_iter()) {
        oks += unit.convert_file_index(ru, x).is_ok() as u64;
        if x <= usize::MAX as u64 {
            let o = x as usize;
            oks += unit.convert_unit_ref(gimli::UnitOffset(o)).is_ok() as u64;
            oks += unit.convert_debug_info_ref(gimli::DebugInfoOffset(o)).is_ok() as u64;
            oks += unit.convert_range_list(ru, gimli::RangeListsOffset(o), convert_address).is_ok() as u64;
            oks += unit.convert_location_list(ru, gimli::LocationListsOffset(o), convert_address).is_ok() as u64;
        }
    }
    oks
}
