//! Driver for the read->write converters (C01: "return a value or an error, never
//! panic/hang" under arbitrary input and faults). Semantic equality of conversion is C12
//! and is deliberately not checked here.

use super::cfi::bases_of;
use super::info::load_dwarf;
use crate::case::Case;
use crate::ctx::Ctx;
use crate::ev;
use gimli::write::{self, Address, EndianVec, Sections, Writer};
use gimli::{DebugFrame, EhFrame, Reader, RunTimeEndian};
use std::cell::Cell;

/// Output storage seam: a sink that can fail at write k.
#[derive(Clone)]
pub struct FaultWriter {
    inner: EndianVec<RunTimeEndian>,
    fail_at: i64,
    count: std::rc::Rc<Cell<i64>>,
}

impl FaultWriter {
    pub fn new(endian: RunTimeEndian, fail_at: i64) -> Self {
        FaultWriter { inner: EndianVec::new(endian), fail_at, count: std::rc::Rc::new(Cell::new(0)) }
    }
    fn gate(&self) -> write::Result<()> {
        let n = self.count.get();
        self.count.set(n + 1);
        if self.fail_at >= 0 && n >= self.fail_at {
            Err(write::Error::OffsetOutOfBounds)
        } else {
            Ok(())
        }
    }
}

impl Writer for FaultWriter {
    type Endian = RunTimeEndian;
    fn endian(&self) -> RunTimeEndian {
        self.inner.endian()
    }
    fn len(&self) -> usize {
        self.inner.len()
    }
    fn write(&mut self, bytes: &[u8]) -> write::Result<()> {
        self.gate()?;
        self.inner.write(bytes)
    }
    fn write_at(&mut self, offset: usize, bytes: &[u8]) -> write::Result<()> {
        self.gate()?;
        self.inner.write_at(offset, bytes)
    }
}

pub fn convert<'a, R: Reader<Offset = usize> + 'a>(mk: &dyn Fn(&'a [u8]) -> R, case: &'a Case, ctx: &mut Ctx<'_>) {
    let n = ctx.n_bytes as u64;
    let sel = case.knob("sel", 0) as u64;
    let endian = super::endian_of(case);
    // legitimately super-linear whole-structure calls
    let budget = 64 * (n + 1) * (n / 4 + 1) + (1 << 20);
    let addr_fail_at = case.knob("addr_fail_at", -1);
    let calls = Cell::new(0i64);
    let convert_address = |a: u64| -> Option<Address> {
        let k = calls.get();
        calls.set(k + 1);
        if addr_fail_at >= 0 && k == addr_fail_at {
            None
        } else {
            Some(Address::Constant(a))
        }
    };
    let write_fail_at = case.knob("write_fail_at", -1);
    let mut dwarf = load_dwarf(mk, case, "");
    if case.knob("dwo", 0) != 0 {
        dwarf.file_type = gimli::DwarfFileType::Dwo;
    }

    // 1. whole-file conversion, then serialisation into the sink
    ctx.enter_with_budget("write.Dwarf.from", budget);
    match write::Dwarf::from(&dwarf, &convert_address) {
        Ok(mut w) => {
            ctx.item();
            ev!(ctx, "converted units={}", w.units.count());
            let mut sections = Sections::new(FaultWriter::new(endian, write_fail_at));
            ctx.enter_with_budget("write.Dwarf.write", budget);
            match w.write(&mut sections) {
                Ok(()) => {
                    ctx.item();
                    ev!(ctx, "written info={} abbrev={} line={}", sections.debug_info.0.len(), sections.debug_abbrev.0.len(), sections.debug_line.0.len());
                }
                Err(e) => {
                    ctx.errs += 1;
                    ev!(ctx, "write error {:?}", e);
                }
            }
        }
        Err(e) => {
            ctx.errs += 1;
            ev!(ctx, "convert error {:?}", std::mem::discriminant(&e));
        }
    }

    // 2. filtered, stepwise conversion
    ctx.enter_with_budget("write.FilterUnitSection", budget);
    let filtered = (|| -> write::ConvertResult<usize> {
        let mut filter = write::FilterUnitSection::new(&dwarf)?;
        let mut k = 0u64;
        while let Some(mut unit) = filter.read_unit()? {
            let mut entry = unit.null_entry();
            while unit.read_entry(&mut entry)? {
                k += 1;
                if (k + sel) % 3 == 0 {
                    unit.require_entry(entry.offset);
                }
            }
        }
        let mut out = write::Dwarf::default();
        let mut conv = out.convert_with_filter(filter)?;
        let mut units = 0;
        while let Some((mut unit, root)) = conv.read_unit()? {
            unit.convert(root, &convert_address)?;
            units += 1;
        }
        let mut sections = Sections::new(FaultWriter::new(endian, write_fail_at));
        out.write(&mut sections).map_err(write::ConvertError::Write)?;
        Ok(units)
    })();
    match filtered {
        Ok(u) => {
            ctx.item();
            ev!(ctx, "filtered units={}", u);
        }
        Err(e) => {
            ctx.errs += 1;
            ev!(ctx, "filter error {:?}", std::mem::discriminant(&e));
        }
    }

    // 3. frame tables
    let asz = case.knob("addr_size", 8) as u8;
    let _ = bases_of(case);
    let mut eh = EhFrame::from(mk(case.sec("eh_frame")));
    eh.set_address_size(asz);
    ctx.enter_with_budget("write.FrameTable.from(eh_frame)", budget);
    match write::FrameTable::from(&eh, &convert_address) {
        Ok(t) => {
            ctx.item();
            ev!(ctx, "frame_table cies={} fdes={}", t.cie_count(), t.fde_count());
            let mut out = write::EhFrame(FaultWriter::new(endian, write_fail_at));
            ctx.enter_with_budget("write.FrameTable.write_eh_frame", budget);
            match t.write_eh_frame(&mut out) {
                Ok(()) => ctx.item(),
                Err(e) => {
                    ctx.errs += 1;
                    ev!(ctx, "write error {:?}", e);
                }
            }
            let mut out = write::DebugFrame(FaultWriter::new(endian, write_fail_at));
            ctx.enter_with_budget("write.FrameTable.write_debug_frame", budget);
            match t.write_debug_frame(&mut out) {
                Ok(()) => ctx.item(),
                Err(e) => {
                    ctx.errs += 1;
                    ev!(ctx, "write error {:?}", e);
                }
            }
        }
        Err(e) => {
            ctx.errs += 1;
            ev!(ctx, "frame convert error {:?}", std::mem::discriminant(&e));
        }
    }
    let mut df = DebugFrame::from(mk(case.sec("debug_frame")));
    df.set_address_size(asz);
    ctx.enter_with_budget("write.FrameTable.from(debug_frame)", budget);
    match write::FrameTable::from(&df, &convert_address) {
        Ok(t) => {
            ctx.item();
            ev!(ctx, "frame_table cies={} fdes={}", t.cie_count(), t.fde_count());
            let mut out = write::DebugFrame(FaultWriter::new(endian, write_fail_at));
            ctx.enter_with_budget("write.FrameTable.write_debug_frame", budget);
            match t.write_debug_frame(&mut out) {
                Ok(()) => ctx.item(),
                Err(e) => {
                    ctx.errs += 1;
                    ev!(ctx, "write error {:?}", e);
                }
            }
        }
        Err(e) => {
            ctx.errs += 1;
            ev!(ctx, "frame convert error {:?}", std::mem::discriminant(&e));
        }
    }
}
