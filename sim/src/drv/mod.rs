//! Drivers: the simulated *caller* of gimli. Generic over the reader kind so the same
//! workload runs over the fault-injecting reader and over every real reader kind.
//!
//! The caller modelled here ignores errors and keeps calling (that is the caller C01
//! talks about) but never commits documented API misuse.

use crate::case::Case;
use crate::ctx::{Ctx, LoopGuard};
use crate::ev;
use crate::fault::FaultReader;
use gimli::{EndianSlice, Error, Reader, Result, RunTimeEndian};

pub mod accel;
pub mod cfi;
pub mod convert;
pub mod info;
pub mod line;
pub mod lists;
pub mod op;
pub mod small;

pub fn endian_of(case: &Case) -> RunTimeEndian {
    if case.knob("be", 0) != 0 {
        RunTimeEndian::Big
    } else {
        RunTimeEndian::Little
    }
}

#[derive(Clone, Copy, PartialEq, Eq)]
pub enum Fused {
    /// Docs promise: after an error nothing but Ok(None) follows.
    Yes,
    No,
}

/// Drive a `next()`-style iterator the way an error-ignoring caller does, bounded by
/// `B(n)`; checks the bounded-iteration and (where documented) fusedness oracles.
pub fn drain<T>(
    ctx: &mut Ctx<'_>,
    api: &'static str,
    n_bytes: usize,
    fused: Fused,
    mut next: impl FnMut() -> Result<Option<T>>,
    mut on_item: impl FnMut(&mut Ctx<'_>, T),
) {
    let mut guard = LoopGuard::new(ctx.iter_bound(n_bytes));
    loop {
        ctx.enter(api);
        if !guard.step(ctx) {
            break;
        }
        match next() {
            Ok(Some(x)) => {
                ctx.item();
                on_item(ctx, x);
            }
            Ok(None) => {
                ctx.end();
                break;
            }
            Err(e) => {
                ctx.err(&e);
                if fused == Fused::Yes && !matches!(e, Error::AddressOverflow) {
                    // "all subsequent calls return Ok(None)"
                    for _ in 0..2 {
                        ctx.enter(api);
                        match next() {
                            Ok(None) => {}
                            Ok(Some(_)) => {
                                if ctx.mon.c01 {
                                    ctx.violate(
                                        "fused",
                                        format!("yielded an item after returning Err({:?})", e),
                                    );
                                }
                                break;
                            }
                            Err(e2) => {
                                if ctx.mon.c01 {
                                    ctx.violate(
                                        "fused",
                                        format!("returned Err({:?}) after Err({:?})", e2, e),
                                    );
                                }
                                break;
                            }
                        }
                    }
                    ctx.end();
                    break;
                }
            }
        }
    }
}

/// Log a `Result<T: Debug>` of a one-shot call.
pub fn call<T: std::fmt::Debug>(ctx: &mut Ctx<'_>, api: &'static str, f: impl FnOnce() -> Result<T>) -> Option<T> {
    ctx.enter(api);
    match f() {
        Ok(v) => {
            ctx.item();
            ev!(ctx, "{} -> {:?}", api, v);
            Some(v)
        }
        Err(e) => {
            ctx.err(&e);
            None
        }
    }
}

/// Same, for values that must not be Debug-printed (contain readers): caller logs.
pub fn call_q<T>(ctx: &mut Ctx<'_>, api: &'static str, f: impl FnOnce() -> Result<T>) -> Option<T> {
    ctx.enter(api);
    match f() {
        Ok(v) => {
            ctx.item();
            Some(v)
        }
        Err(e) => {
            ctx.err(&e);
            None
        }
    }
}

/// Boundary ladder for index / offset / address arguments.
pub fn ladder(count: u64) -> Vec<u64> {
    let mut v = vec![
        0,
        1,
        count.wrapping_sub(1),
        count,
        count.wrapping_add(1),
        1 << 31,
        1 << 32,
        1 << 61,
        (1 << 61) + 1,
        1 << 62,
        1 << 63,
        u64::MAX / 3,
        u64::MAX - 1,
        u64::MAX,
    ];
    v.sort_unstable();
    v.dedup();
    v
}

pub fn drive_family<'a, R: Reader<Offset = usize> + 'a>(
    mk: &dyn Fn(&'a [u8]) -> R,
    case: &'a Case,
    ctx: &mut Ctx<'_>,
) {
    match case.family.as_str() {
        "aranges" => small::aranges(mk, case, ctx),
        "addr" => small::addr(mk, case, ctx),
        "str" => small::strs(mk, case, ctx),
        "pub" => small::pubs(mk, case, ctx),
        "line" => line::line(mk, case, ctx),
        "macros" => line::macros(mk, case, ctx),
        "lists" => lists::lists(mk, case, ctx),
        "info" => info::info(mk, case, ctx),
        "cfi" => cfi::cfi(mk, case, ctx),
        "op" => op::ops(mk, case, ctx),
        "names" => accel::names(mk, case, ctx),
        "convert" => convert::convert(mk, case, ctx),
        "index" => accel::index(mk, case, ctx),
        other => panic!("unknown family {}", other),
    }
}

/// Knob `fscope` = n > 0: faults fire only inside the n-th non-empty section of the case.
pub fn fault_scope(case: &Case) -> Option<(u64, u64)> {
    let n = case.knob("fscope", 0);
    if n <= 0 {
        return None;
    }
    let secs: Vec<&Vec<u8>> = case.secs.values().filter(|v| !v.is_empty()).collect();
    if secs.is_empty() {
        return None;
    }
    let v = secs[(n as usize - 1) % secs.len()];
    let lo = v.as_ptr() as u64;
    Some((lo, lo + v.len() as u64))
}

/// Reader-kind dispatch (knob `rk`).
pub fn drive_case<'a>(case: &'a Case, ctx: &mut Ctx<'_>) {
    let endian = endian_of(case);
    match case.knob("rk", 0) {
        0 => {
            let sim = ctx.sim.clone();
            sim.set_scope(fault_scope(case));
            let mk = move |b: &'a [u8]| FaultReader::new(EndianSlice::new(b, endian), sim.clone());
            drive_family(&mk, case, ctx)
        }
        1 => {
            let mk = move |b: &'a [u8]| EndianSlice::new(b, endian);
            drive_family(&mk, case, ctx)
        }
        2 => {
            let mk = move |b: &'a [u8]| gimli::EndianRcSlice::new(std::rc::Rc::from(b), endian);
            drive_family(&mk, case, ctx)
        }
        3 => {
            let mk = move |b: &'a [u8]| gimli::EndianArcSlice::new(std::sync::Arc::from(b), endian);
            drive_family(&mk, case, ctx)
        }
        4 => {
            let mk = move |b: &'a [u8]| gimli::EndianReader::new(crate::readers::CountingBuf::new(b), endian);
            drive_family(&mk, case, ctx)
        }
        5 => {
            let mk = move |b: &'a [u8]| gimli::RelocateReader::new(EndianSlice::new(b, endian), crate::readers::Identity);
            drive_family(&mk, case, ctx)
        }
        6 => {
            // a relocation table that fails at call k (C01: failing Relocate callbacks)
            let calls = std::rc::Rc::new(std::cell::Cell::new(0i64));
            let fail_at = case.knob("reloc_fail_at", 0);
            let mk = move |b: &'a [u8]| {
                gimli::RelocateReader::new(EndianSlice::new(b, endian), crate::readers::FailingRelocate { fail_at, calls: calls.clone() })
            };
            drive_family(&mk, case, ctx)
        }
        k => panic!("unknown reader kind {}", k),
    }
}
