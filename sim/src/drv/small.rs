//! Drivers for the small table sections: .debug_aranges, .debug_addr, .debug_str*,
//! .debug_pubnames/.debug_pubtypes.

use super::{call, call_q, drain, ladder, Fused};
use crate::case::Case;
use crate::ctx::Ctx;
use crate::ev;
use gimli::{
    DebugAddr, DebugAddrBase, DebugAddrIndex, DebugAranges, DebugArangesOffset, DebugLineStr,
    DebugLineStrOffset, DebugPubNames, DebugPubTypes, DebugStr, DebugStrOffset, DebugStrOffsets,
    DebugStrOffsetsBase, DebugStrOffsetsIndex, Format, Reader,
};

pub fn aranges<'a, R: Reader<Offset = usize> + 'a>(
    mk: &dyn Fn(&'a [u8]) -> R,
    case: &'a Case,
    ctx: &mut Ctx<'_>,
) {
    let bytes = case.sec("debug_aranges");
    let n = bytes.len();
    let sec = DebugAranges::from(mk(bytes));
    let mut headers = sec.headers();
    let mut hdrs = Vec::new();
    drain(
        ctx,
        "aranges.headers.next",
        n,
        Fused::No,
        || headers.next(),
        |ctx, h| {
            ev!(
                ctx,
                "arange_header off={} len={} enc={:?} info={}",
                h.offset().0,
                h.length(),
                h.encoding(),
                h.debug_info_offset().0
            );
            hdrs.push(h);
        },
    );
    let mut offsets: Vec<usize> = hdrs.iter().map(|h| h.offset().0).collect();
    for (i, h) in hdrs.iter().enumerate() {
        if i >= 64 {
            break;
        }
        if h.encoding().format == Format::Dwarf64 {
            ctx.probe("aranges_dwarf64");
        }
        let mut it = h.entries();
        drain(
            ctx,
            "aranges.entries.next",
            n,
            Fused::Yes,
            || it.next(),
            |ctx, e| {
                ev!(ctx, "arange {:#x}+{:#x} {:?}", e.address(), e.length(), e.range());
            },
        );
        let mut it = h.entries();
        let mut raws = Vec::new();
        drain(
            ctx,
            "aranges.entries.next_raw",
            n,
            Fused::Yes,
            || it.next_raw(),
            |ctx, e| {
                ev!(ctx, "arange_raw {:#x}+{:#x}", e.address(), e.length());
                if raws.len() < 64 {
                    raws.push(e);
                }
            },
        );
        for e in raws {
            let _ = call(ctx, "aranges.entries.convert_raw", || it.convert_raw(e));
        }
    }
    // positioned header reads at data-provided and boundary offsets
    offsets.extend(ladder(n as u64).into_iter().map(|x| x as usize));
    offsets.truncate(40);
    for off in offsets {
        if let Some(h) = call_q(ctx, "aranges.header", || sec.header(DebugArangesOffset(off))) {
            ev!(ctx, "arange_header@{} len={} enc={:?}", off, h.length(), h.encoding());
            let mut it = h.entries();
            drain(
                ctx,
                "aranges.header.entries.next",
                n,
                Fused::Yes,
                || it.next(),
                |ctx, e| {
                    ev!(ctx, "arange {:#x}+{:#x}", e.address(), e.length());
                },
            );
        }
    }
}

pub fn addr<'a, R: Reader<Offset = usize> + 'a>(
    mk: &dyn Fn(&'a [u8]) -> R,
    case: &'a Case,
    ctx: &mut Ctx<'_>,
) {
    let bytes = case.sec("debug_addr");
    let n = bytes.len();
    let sec = DebugAddr::from(mk(bytes));
    let mut headers = sec.headers();
    let mut hdrs = Vec::new();
    drain(
        ctx,
        "addr.headers.next",
        n,
        Fused::No,
        || headers.next(),
        |ctx, h| {
            ev!(ctx, "addr_header off={} len={} enc={:?}", h.offset().0, h.length(), h.encoding());
            hdrs.push(h);
        },
    );
    for h in hdrs.iter().take(64) {
        let mut it = h.entries();
        drain(
            ctx,
            "addr.entries.next",
            n,
            Fused::Yes,
            || it.next(),
            |ctx, a| {
                ev!(ctx, "addr {:#x}", a);
            },
        );
    }
    let asz = case.knob("addr_size", 8) as u8;
    let sel = case.knob("sel", 0) as usize;
    let bases = [0usize, 8, n, usize::MAX];
    let alt = [1u8, 2, 4, 8][sel % 4];
    for &b in &bases {
        for idx in ladder((n / asz.max(1) as usize) as u64) {
            for &sz in &[asz, alt] {
                let _ = call(ctx, "addr.get_address", || {
                    sec.get_address(sz, DebugAddrBase(b), DebugAddrIndex(idx as usize))
                });
            }
        }
    }
}

pub fn strs<'a, R: Reader<Offset = usize> + 'a>(
    mk: &dyn Fn(&'a [u8]) -> R,
    case: &'a Case,
    ctx: &mut Ctx<'_>,
) {
    let sb = case.sec("debug_str");
    let lb = case.sec("debug_line_str");
    let ob = case.sec("debug_str_offsets");
    let debug_str = DebugStr::from(mk(sb));
    let line_str = DebugLineStr::from(mk(lb));
    let offs = DebugStrOffsets::from(mk(ob));
    let mut probe_offsets: Vec<usize> = ladder(sb.len() as u64).into_iter().map(|x| x as usize).collect();
    // every string start of a small table, sampled for big ones
    let mut o = 0usize;
    let mut cnt = 0;
    while o < sb.len() && cnt < 64 {
        probe_offsets.push(o);
        o += sb[o..].iter().position(|&b| b == 0).unwrap_or(sb.len()) + 1;
        cnt += 1;
    }
    for &off in &probe_offsets {
        if let Some(s) = call_q(ctx, "str.get_str", || debug_str.get_str(DebugStrOffset(off))) {
            ctx.bytes_of("str", &s);
        }
        if let Some(s) = call_q(ctx, "line_str.get_str", || line_str.get_str(DebugLineStrOffset(off))) {
            ctx.bytes_of("line_str", &s);
        }
    }
    let n = ob.len();
    for &fmt in &[Format::Dwarf32, Format::Dwarf64] {
        for &b in &[0usize, 8, n, usize::MAX] {
            for idx in ladder((n / 4) as u64) {
                if let Some(o) = call(ctx, "str_offsets.get_str_offset", || {
                    offs.get_str_offset(fmt, DebugStrOffsetsBase(b), DebugStrOffsetsIndex(idx as usize))
                }) {
                    if let Some(s) = call_q(ctx, "str.get_str", || debug_str.get_str(o)) {
                        ctx.bytes_of("strx", &s);
                    }
                }
            }
        }
    }
}

pub fn pubs<'a, R: Reader<Offset = usize> + 'a>(
    mk: &dyn Fn(&'a [u8]) -> R,
    case: &'a Case,
    ctx: &mut Ctx<'_>,
) {
    let nb = case.sec("debug_pubnames");
    let tb = case.sec("debug_pubtypes");
    let names = DebugPubNames::from(mk(nb));
    let mut it = names.items();
    drain(
        ctx,
        "pubnames.items.next",
        nb.len(),
        Fused::Yes,
        || it.next(),
        |ctx, e| {
            ev!(ctx, "pubname unit={} die={}", e.unit_header_offset().0, e.die_offset().0);
            ctx.bytes_of("name", e.name());
        },
    );
    let types = DebugPubTypes::from(mk(tb));
    let mut it = types.items();
    drain(
        ctx,
        "pubtypes.items.next",
        tb.len(),
        Fused::Yes,
        || it.next(),
        |ctx, e| {
            ev!(ctx, "pubtype unit={} die={}", e.unit_header_offset().0, e.die_offset().0);
            ctx.bytes_of("name", e.name());
        },
    );
}
