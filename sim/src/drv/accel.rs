//! Drivers for .debug_names and the split-DWARF package index (.debug_cu_index,
//! .debug_tu_index, DwarfPackage).

use super::info::{load_dwarf, sec_name};
use super::{call, call_q, drain, Fused};
use crate::case::Case;
use crate::ctx::{Ctx, LoopGuard};
use crate::ev;
use gimli::{
    DebugCuIndex, DebugNames, DebugStr, DebugTuIndex, DebugTypeSignature, DwarfPackage, DwoId,
    Error, NameEntry, NameEntryOffset, NameIndex, NameTableIndex, Reader, UnitIndex,
};

fn ladder32(count: u32) -> Vec<u32> {
    let mut v = vec![0, 1, count.wrapping_sub(1), count, count.wrapping_add(1), 1 << 31, u32::MAX];
    v.sort_unstable();
    v.dedup();
    v
}

fn log_name_entry<R: Reader<Offset = usize>>(ctx: &mut Ctx<'_>, idx: &NameIndex<R>, e: &NameEntry<R>) {
    ev!(ctx, "name_entry off={} code={} tag={:?} nattrs={}", e.offset.0, e.abbrev_code, e.tag, e.attrs.len());
    for a in e.attrs.iter().take(8) {
        ev!(ctx, "  {:?} {:?} {:?}", a.name(), a.form(), a.value());
    }
    ctx.enter("names.entry.accessors");
    let cu = e.compile_unit(idx);
    let tu = e.type_unit(idx);
    let die = e.die_offset();
    let par = e.parent();
    let th = e.type_hash();
    ev!(
        ctx,
        "  cu={:?} tu={:?} die={:?} parent={:?} hash={:?}",
        cu.map_err(|e| crate::ctx::err_name(&e)),
        tu.map_err(|e| crate::ctx::err_name(&e)),
        die.map_err(|e| crate::ctx::err_name(&e)),
        par.map_err(|e| crate::ctx::err_name(&e)),
        th.map_err(|e| crate::ctx::err_name(&e))
    );
    if let Ok(Some(Some(p))) = par {
        ctx.probe("names_parent_chain");
        if let Some(pe) = call_q(ctx, "names.name_entry", || idx.name_entry(p)) {
            ev!(ctx, "  parent_entry off={} tag={:?}", pe.offset.0, pe.tag);
        }
    }
}

pub fn names<'a, R: Reader<Offset = usize> + 'a>(mk: &dyn Fn(&'a [u8]) -> R, case: &'a Case, ctx: &mut Ctx<'_>) {
    let bytes = case.sec("debug_names");
    let n = bytes.len();
    let sel = case.knob("sel", 0) as u64;
    let sec = DebugNames::from(mk(bytes));
    let debug_str = DebugStr::from(mk(case.sec("debug_str")));
    let mut headers = Vec::new();
    let mut it = sec.headers();
    drain(ctx, "names.headers.next", n, Fused::No, || it.next(), |ctx, h| {
        ev!(
            ctx,
            "names_header off={} len={} fmt={:?} ver={} cu={} ltu={} ftu={} buckets={} names={} abbrev={}",
            h.offset().0,
            h.length(),
            h.format(),
            h.version(),
            h.compile_unit_count(),
            h.local_type_unit_count(),
            h.foreign_type_unit_count(),
            h.bucket_count(),
            h.name_count(),
            h.abbrev_table_size()
        );
        if let Some(a) = h.augmentation_string() {
            ctx.bytes_of("  augmentation", a);
        }
        if headers.len() < 3 {
            headers.push(h);
        }
    });
    for h in headers {
        let idx = match call_q(ctx, "names.header.index", || h.index()) {
            Some(i) => i,
            None => continue,
        };
        ev!(
            ctx,
            "names_index cu={} ltu={} ftu={} hash={} buckets={} names={}",
            idx.compile_unit_count(),
            idx.local_type_unit_count(),
            idx.foreign_type_unit_count(),
            idx.has_hash_table(),
            idx.bucket_count(),
            idx.name_count()
        );
        ctx.enter("names.type_unit_count");
        let tuc = idx.type_unit_count();
        ev!(ctx, "  type_unit_count={}", tuc);
        let _ = call(ctx, "names.default_compile_unit", || idx.default_compile_unit());
        for i in ladder32(idx.compile_unit_count()) {
            let _ = call(ctx, "names.compile_unit", || idx.compile_unit(i));
        }
        for i in ladder32(idx.local_type_unit_count()) {
            let _ = call(ctx, "names.local_type_unit", || idx.local_type_unit(i));
        }
        for i in ladder32(idx.foreign_type_unit_count()) {
            let _ = call(ctx, "names.foreign_type_unit", || idx.foreign_type_unit(i));
        }
        for i in ladder32(tuc) {
            let _ = call(ctx, "names.type_unit", || idx.type_unit(i));
        }
        // abbreviations
        ev!(ctx, "  nabbrevs={}", idx.abbreviations().abbreviations().len());
        for code in [0u64, 1, 2, 3, u64::MAX] {
            if let Some(a) = idx.abbreviations().get(code) {
                ev!(ctx, "  abbrev {} tag={:?} attrs={:?}", a.code(), a.tag(), a.attributes().iter().map(|x| (x.name(), x.form())).collect::<Vec<_>>());
            }
        }
        // buckets
        let mut hashes: Vec<u32> = vec![0, 7, u32::MAX, sel as u32];
        let mut bs: Vec<u32> = (0..idx.bucket_count().min(6)).collect();
        bs.extend(ladder32(idx.bucket_count()));
        for b in bs {
            if let Some(Some(mut it)) = call_q(ctx, "names.find_by_bucket", || idx.find_by_bucket(b)) {
                ctx.probe("names_bucket_nonempty");
                drain(ctx, "names.bucket_iter.next", n, Fused::No, || it.next(), |ctx, (i, h)| {
                    ev!(ctx, "  bucket {} -> name {} hash {:#x}", b, i.0, h);
                    if hashes.len() < 12 {
                        hashes.push(h);
                    }
                });
            }
        }
        for h in hashes {
            if let Some(mut it) = call_q(ctx, "names.find_by_hash", || idx.find_by_hash(h)) {
                drain(ctx, "names.hash_iter.next", n, Fused::No, || it.next(), |ctx, i| {
                    ev!(ctx, "  hash {:#x} -> name {}", h, i.0);
                });
            }
        }
        // name table
        let mut guard = LoopGuard::new(ctx.iter_bound(n));
        let mut nidx = Vec::new();
        ctx.enter("names.names.next");
        for i in idx.names() {
            if !guard.step(ctx) {
                break;
            }
            if nidx.len() < 6 {
                nidx.push(i.0);
            }
        }
        ctx.end();
        nidx.extend(ladder32(idx.name_count()));
        for i in nidx {
            let _ = call(ctx, "names.name_string_offset", || idx.name_string_offset(NameTableIndex(i)).map(|o| o.0));
            if let Some(s) = call_q(ctx, "names.name_string", || idx.name_string(NameTableIndex(i), &debug_str)) {
                ctx.bytes_of("  name", &s);
            }
            if let Some(mut it) = call_q(ctx, "names.name_entries", || idx.name_entries(NameTableIndex(i))) {
                let mut es = Vec::new();
                drain(ctx, "names.entry_iter.next", n, Fused::No, || it.next(), |_ctx, e| {
                    if es.len() < 4 {
                        es.push(e);
                    }
                });
                for e in &es {
                    log_name_entry(ctx, &idx, e);
                }
            }
        }
        for off in [0usize, 1, (sel % 64) as usize, usize::MAX] {
            if let Some(e) = call_q(ctx, "names.name_entry", || idx.name_entry(NameEntryOffset(off))) {
                ev!(ctx, "  name_entry@{} tag={:?}", off, e.tag);
            }
        }
    }
}

fn drive_index<R: Reader<Offset = usize>>(ctx: &mut Ctx<'_>, what: &str, idx: &UnitIndex<R>, ids: &[u64], n: usize) {
    ev!(
        ctx,
        "{} version={} sections={} units={} slots={}",
        what,
        idx.version(),
        idx.section_count(),
        idx.unit_count(),
        idx.slot_count()
    );
    if idx.slot_count() > 0 && idx.unit_count() + 1 == idx.slot_count() {
        ctx.probe("index_full_minus_one");
    }
    for &id in ids {
        ctx.enter("index.find");
        let r = idx.find(id);
        ev!(ctx, "  find({:#x}) = {:?}", id, r);
        if r.is_some() {
            ctx.item();
        }
    }
    for row in ladder32(idx.unit_count()) {
        ctx.enter("index.sections");
        match idx.sections(row) {
            Ok(it) => {
                ctx.item();
                let mut guard = LoopGuard::new(ctx.iter_bound(n));
                for s in it {
                    if !guard.step(ctx) {
                        break;
                    }
                    ev!(ctx, "  row {} {:?} off={} size={} name={}", row, s.section, s.offset, s.size, s.section.dwo_name());
                    let _ = s.section.section_id();
                }
            }
            Err(e) => ctx.err(&e),
        }
    }
}

pub fn index<'a, R: Reader<Offset = usize> + 'a>(mk: &dyn Fn(&'a [u8]) -> R, case: &'a Case, ctx: &mut Ctx<'_>) {
    let n = ctx.n_bytes;
    let sel = case.knob("sel", 0) as u64;
    let mut ids: Vec<u64> = vec![0, 1, 5, (1 << 32) | 5, u64::MAX, sel];
    for k in 0..4 {
        let v = case.knob(["id0", "id1", "id2", "id3"][k], -1);
        if v != -1 {
            ids.push(v as u64);
        }
    }
    let cu = DebugCuIndex::from(mk(case.sec("debug_cu_index")));
    if let Some(i) = call_q(ctx, "cu_index.index", || cu.index()) {
        drive_index(ctx, "cu_index", &i, &ids, n);
    }
    let tu = DebugTuIndex::from(mk(case.sec("debug_tu_index")));
    if let Some(i) = call_q(ctx, "tu_index.index", || tu.index()) {
        drive_index(ctx, "tu_index", &i, &ids, n);
    }
    // the package: units fetched through the index
    let parent = load_dwarf(mk, case, "parent_");
    ctx.enter("dwp.load");
    let dwp: Result<DwarfPackage<R>, Error> = DwarfPackage::load(
        |id| {
            let name = format!("{}", sec_name(id));
            Ok(mk(case.secs.get(&name).map(|v| &v[..]).unwrap_or(&[])))
        },
        mk(&[]),
    );
    let dwp = match dwp {
        Ok(d) => {
            ctx.item();
            d
        }
        Err(e) => {
            ctx.err(&e);
            return;
        }
    };
    for &id in &ids {
        ctx.enter("dwp.find_cu");
        match dwp.find_cu(DwoId(id), &parent) {
            Ok(Some(d)) => {
                ctx.item();
                ctx.probe("dwp_find_cu_hit");
                ev!(ctx, "find_cu({:#x}) hit", id);
                // the unit fetched from the package is parsed like any other
                let mut it = d.units();
                drain(ctx, "dwp.cu.units.next", n, Fused::No, || it.next(), |ctx, h| {
                    super::info::log_header(ctx, &h);
                    if let Some(u) = call_q(ctx, "dwp.cu.unit", || d.unit(h.clone())) {
                        ev!(ctx, "  dwo unit low_pc={:#x} dwo_id={:?}", u.low_pc, u.dwo_id);
                    }
                });
            }
            Ok(None) => {
                ev!(ctx, "find_cu({:#x}) miss", id);
            }
            Err(e) => ctx.err(&e),
        }
        ctx.enter("dwp.find_tu");
        match dwp.find_tu(DebugTypeSignature(id), &parent) {
            Ok(Some(d)) => {
                ctx.item();
                let mut it = d.type_units();
                drain(ctx, "dwp.tu.type_units.next", n, Fused::No, || it.next(), |ctx, h| {
                    super::info::log_header(ctx, &h);
                });
            }
            Ok(None) => {}
            Err(e) => ctx.err(&e),
        }
    }
    for row in ladder32(dwp.cu_index.unit_count()) {
        ctx.enter("dwp.cu_sections");
        match dwp.cu_sections(row, &parent) {
            Ok(d) => {
                ctx.item();
                ev!(ctx, "cu_sections({}) info_len={}", row, gimli::Section::reader(&d.debug_info).len());
            }
            Err(e) => ctx.err(&e),
        }
        ctx.enter("dwp.tu_sections");
        match dwp.tu_sections(row, &parent) {
            Ok(_) => ctx.item(),
            Err(e) => ctx.err(&e),
        }
    }
}
