//! Driver for .eh_frame / .debug_frame / .eh_frame_hdr: entries, positioned parses,
//! address lookups (linear, hdr table, unwind info), instruction iterators, unwind tables.

use super::{call, call_q, drain, ladder, Fused};
use crate::case::Case;
use crate::ctx::Ctx;
use crate::ev;
use crate::wl::asm::{EH_FRAME_ADDR, EH_FRAME_HDR_ADDR, GOT_ADDR, TEXT_ADDR};
use gimli::{
    BaseAddresses, CallFrameInstruction, CieOrFde, CommonInformationEntry, DebugFrame, EhFrame,
    EhFrameHdr, Error, FrameDescriptionEntry, Reader, Register, RegisterRule, Result,
    StoreOnHeap, UnwindContext, UnwindContextStorage, UnwindOffset, UnwindSection,
    UnwindTableRow, Vendor,
};
use std::cell::RefCell;
use std::collections::BTreeMap;

/// Caller-provided fixed storage (the signal-safe unwinder case).
#[derive(Debug, Clone, Copy, PartialEq, Eq)]
pub struct Fixed<const ROWS: usize, const RULES: usize>;

impl<const ROWS: usize, const RULES: usize> UnwindContextStorage<usize> for Fixed<ROWS, RULES> {
    type Rules = [(Register, RegisterRule<usize>); RULES];
    type Stack = [UnwindTableRow<usize, Self>; ROWS];
}

/// Unbounded storage (Vec is one of the sealed ArrayLike implementations).
#[derive(Debug, Clone, Copy, PartialEq, Eq)]
pub struct Unbounded;

impl UnwindContextStorage<usize> for Unbounded {
    type Rules = Vec<(Register, RegisterRule<usize>)>;
    type Stack = Vec<UnwindTableRow<usize, Self>>;
}

pub struct Names {
    pub entries_next: &'static str,
    pub cie_instructions_next: &'static str,
    pub fde_parse: &'static str,
    pub fde_instructions_next: &'static str,
    pub rows: &'static str,
    pub next_row: &'static str,
    pub cie_from_offset: &'static str,
    pub partial_fde_from_offset: &'static str,
    pub fde_from_offset: &'static str,
    pub fde_for_address: &'static str,
    pub unwind_info_for_address: &'static str,
    pub fde_unwind_info_for_address: &'static str,
    pub expr_get: &'static str,
}

pub const EH: Names = Names {
    entries_next: "eh_frame.entries.next",
    cie_instructions_next: "eh_frame.cie.instructions.next",
    fde_parse: "eh_frame.partial_fde.parse",
    fde_instructions_next: "eh_frame.fde.instructions.next",
    rows: "eh_frame.fde.rows",
    next_row: "eh_frame.table.next_row",
    cie_from_offset: "eh_frame.cie_from_offset",
    partial_fde_from_offset: "eh_frame.partial_fde_from_offset",
    fde_from_offset: "eh_frame.fde_from_offset",
    fde_for_address: "eh_frame.fde_for_address",
    unwind_info_for_address: "eh_frame.unwind_info_for_address",
    fde_unwind_info_for_address: "eh_frame.fde.unwind_info_for_address",
    expr_get: "eh_frame.unwind_expression.get",
};

pub const DF: Names = Names {
    entries_next: "debug_frame.entries.next",
    cie_instructions_next: "debug_frame.cie.instructions.next",
    fde_parse: "debug_frame.partial_fde.parse",
    fde_instructions_next: "debug_frame.fde.instructions.next",
    rows: "debug_frame.fde.rows",
    next_row: "debug_frame.table.next_row",
    cie_from_offset: "debug_frame.cie_from_offset",
    partial_fde_from_offset: "debug_frame.partial_fde_from_offset",
    fde_from_offset: "debug_frame.fde_from_offset",
    fde_for_address: "debug_frame.fde_for_address",
    unwind_info_for_address: "debug_frame.unwind_info_for_address",
    fde_unwind_info_for_address: "debug_frame.fde.unwind_info_for_address",
    expr_get: "debug_frame.unwind_expression.get",
};

pub fn bases_of(case: &Case) -> BaseAddresses {
    let mut b = BaseAddresses::default();
    let k = case.knob("bases", 0xf);
    if k & 1 != 0 {
        b = b.set_eh_frame(EH_FRAME_ADDR);
    }
    if k & 2 != 0 {
        b = b.set_eh_frame_hdr(EH_FRAME_HDR_ADDR);
    }
    if k & 4 != 0 {
        b = b.set_text(TEXT_ADDR);
    }
    if k & 8 != 0 {
        b = b.set_got(GOT_ADDR);
    }
    b
}

/// The caller's CIE cache (the `get_cie` seam): direct parse, memoising, or failing at
/// call k.
pub struct CieProvider<R: Reader<Offset = usize>> {
    kind: i64,
    fail_at: i64,
    calls: RefCell<i64>,
    cache: RefCell<BTreeMap<usize, Result<CommonInformationEntry<R>>>>,
}

impl<R: Reader<Offset = usize>> CieProvider<R> {
    pub fn new(case: &Case) -> Self {
        CieProvider {
            kind: case.knob("cie_provider", 0),
            fail_at: case.knob("cie_fail_at", -1),
            calls: RefCell::new(0),
            cache: RefCell::new(BTreeMap::new()),
        }
    }
    pub fn get<S: UnwindSection<R>>(&self, s: &S, b: &BaseAddresses, o: S::Offset) -> Result<CommonInformationEntry<R>> {
        let n = {
            let mut c = self.calls.borrow_mut();
            *c += 1;
            *c - 1
        };
        if self.fail_at >= 0 && n == self.fail_at {
            return Err(Error::Io);
        }
        let key: usize = UnwindOffset::into(o);
        if self.kind == 1 {
            if let Some(r) = self.cache.borrow().get(&key) {
                return r.clone();
            }
            let r = s.cie_from_offset(b, o);
            self.cache.borrow_mut().insert(key, r.clone());
            r
        } else {
            s.cie_from_offset(b, o)
        }
    }
}

pub fn log_cie<R: Reader<Offset = usize>>(ctx: &mut Ctx<'_>, c: &CommonInformationEntry<R>) {
    ev!(
        ctx,
        "cie off={} len={} enc={:?} ver={} aug={:?} lsda={} lsda_enc={:?} pers={:?} pers_enc={:?} fde_enc={:?} sig={} caf={} daf={} ra={:?}",
        c.offset(),
        c.entry_len(),
        c.encoding(),
        c.version(),
        c.augmentation(),
        c.has_lsda(),
        c.lsda_encoding(),
        c.personality(),
        c.personality_with_encoding(),
        c.fde_address_encoding(),
        c.is_signal_trampoline(),
        c.code_alignment_factor(),
        c.data_alignment_factor(),
        c.return_address_register()
    );
    if c.augmentation().is_some() {
        ctx.probe("cie_with_augmentation");
    }
}

pub fn log_fde<R: Reader<Offset = usize>>(ctx: &mut Ctx<'_>, f: &FrameDescriptionEntry<R>) {
    ev!(
        ctx,
        "fde off={} len={} cie_off={} {:#x}+{:#x} end={:#x} lsda={:?} sig={} pers={:?}",
        f.offset(),
        f.entry_len(),
        f.cie().offset(),
        f.initial_address(),
        f.len(),
        f.end_address(),
        f.lsda(),
        f.is_signal_trampoline(),
        f.personality()
    );
}

pub fn log_row<S: UnwindContextStorage<usize>>(ctx: &mut Ctx<'_>, row: &UnwindTableRow<usize, S>) {
    ev!(
        ctx,
        "row {:#x}..{:#x} cfa={:?} args={} contains_start={}",
        row.start_address(),
        row.end_address(),
        row.cfa(),
        row.saved_args_size(),
        row.contains(row.start_address())
    );
    let mut n = 0;
    for (r, rule) in row.registers() {
        ev!(ctx, "  {:?} -> {:?}", r, rule);
        n += 1;
    }
    if n >= 2 {
        ctx.probe("row_with_2plus_rules");
    }
    for r in [0u16, 7, 16, 34] {
        if let Some(rule) = row.register(Register(r)) {
            ev!(ctx, "  register({}) = {:?}", r, rule);
        }
    }
}

fn log_instruction<R: Reader<Offset = usize>, S: UnwindSection<R>>(
    ctx: &mut Ctx<'_>,
    sec: &S,
    names: &Names,
    i: &CallFrameInstruction<usize>,
) {
    ev!(ctx, "cfa_ins {:?}", i);
    let e = match i {
        CallFrameInstruction::DefCfaExpression { expression } => Some(expression),
        CallFrameInstruction::Expression { expression, .. } => Some(expression),
        CallFrameInstruction::ValExpression { expression, .. } => Some(expression),
        _ => None,
    };
    if let Some(e) = e {
        ctx.probe("cfa_expression");
        if let Some(x) = call_q(ctx, names.expr_get, || e.get(sec)) {
            ctx.bytes_of("  expr", &x.0);
        }
    }
}

fn drive_fde<R: Reader<Offset = usize>, S: UnwindSection<R>, St: UnwindContextStorage<usize>>(
    ctx: &mut Ctx<'_>,
    sec: &S,
    names: &Names,
    bases: &BaseAddresses,
    uctx: &mut UnwindContext<usize, St>,
    fde: &FrameDescriptionEntry<R>,
    n: usize,
    sel: u64,
) {
    log_fde(ctx, fde);
    let mut it = fde.instructions(sec, bases);
    drain(ctx, names.fde_instructions_next, n, Fused::No, || it.next(), |ctx, i| log_instruction(ctx, sec, names, &i));
    ctx.enter(names.rows);
    match fde.rows(sec, bases, uctx) {
        Ok(mut table) => {
            ctx.item();
            let mut rows = 0u64;
            drain(
                ctx,
                names.next_row,
                n,
                Fused::No,
                || table.next_row().map(|o| o.cloned()),
                |ctx, row| {
                    rows += 1;
                    log_row(ctx, &row);
                },
            );
            if rows >= 3 {
                ctx.probe("unwind_table_3plus_rows");
            }
            match table.into_current_row() {
                Some(r) => {
                    ev!(ctx, "into_current_row {:#x}", r.start_address());
                }
                None => {
                    ev!(ctx, "into_current_row none");
                }
            }
        }
        Err(e) => ctx.err(&e),
    }
    let addrs = [
        fde.initial_address(),
        fde.initial_address().wrapping_sub(1),
        fde.end_address().wrapping_sub(1),
        fde.end_address(),
        fde.initial_address().wrapping_add(sel % 64),
    ];
    for a in addrs {
        ctx.enter(names.fde_unwind_info_for_address);
        match fde.unwind_info_for_address(sec, bases, uctx, a) {
            Ok(row) => {
                ctx.item();
                ev!(ctx, "unwind_info({:#x}) contains={}", a, fde.contains(a));
                let row = row.clone();
                log_row(ctx, &row);
            }
            Err(e) => ctx.err(&e),
        }
    }
}

fn drive_section<R: Reader<Offset = usize>, S: UnwindSection<R>, St: UnwindContextStorage<usize>>(
    ctx: &mut Ctx<'_>,
    sec: &S,
    names: &Names,
    bases: &BaseAddresses,
    case: &Case,
    n: usize,
    mk_off: &dyn Fn(usize) -> S::Offset,
) -> Vec<u64> {
    let sel = case.knob("sel", 0) as u64;
    let provider: CieProvider<R> = CieProvider::new(case);
    let mut uctx: UnwindContext<usize, St> = UnwindContext::new_in();
    let mut offsets: Vec<usize> = Vec::new();
    let mut probe_addrs: Vec<u64> = Vec::new();
    let mut entries = sec.entries(bases);
    let mut items = Vec::new();
    drain(ctx, names.entries_next, n, Fused::Yes, || entries.next(), |_ctx, e| {
        if items.len() < 24 {
            items.push(e);
        }
    });
    let mut n_fdes = 0u64;
    for e in &items {
        match e {
            CieOrFde::Cie(c) => {
                log_cie(ctx, c);
                offsets.push(c.offset());
                let mut it = c.instructions(sec, bases);
                drain(ctx, names.cie_instructions_next, n, Fused::No, || it.next(), |ctx, i| log_instruction(ctx, sec, names, &i));
            }
            CieOrFde::Fde(p) => {
                n_fdes += 1;
                let co: usize = UnwindOffset::into(p.cie_offset());
                ev!(ctx, "partial_fde off={} len={} cie_off={}", p.offset(), p.entry_len(), co);
                offsets.push(p.offset());
                ctx.enter(names.fde_parse);
                match p.parse(|s, b, o| provider.get(s, b, o)) {
                    Ok(fde) => {
                        ctx.item();
                        probe_addrs.push(fde.initial_address());
                        probe_addrs.push(fde.end_address());
                        if n_fdes <= 6 {
                            drive_fde(ctx, sec, names, bases, &mut uctx, &fde, n, sel);
                        }
                    }
                    Err(e) => ctx.err(&e),
                }
            }
        }
    }
    // positioned parses
    let lad = ladder(n as u64);
    offsets.truncate(8);
    offsets.push(lad[(sel % lad.len() as u64) as usize] as usize);
    offsets.push(lad[((sel >> 7) % lad.len() as u64) as usize] as usize);
    offsets.push(4);
    for &o in &offsets {
        if let Some(c) = call_q(ctx, names.cie_from_offset, || sec.cie_from_offset(bases, mk_off(o))) {
            log_cie(ctx, &c);
        }
        if let Some(p) = call_q(ctx, names.partial_fde_from_offset, || sec.partial_fde_from_offset(bases, mk_off(o))) {
            ev!(ctx, "partial@{} len={}", o, p.entry_len());
        }
        if let Some(f) = call_q(ctx, names.fde_from_offset, || {
            sec.fde_from_offset(bases, mk_off(o), |s, b, o| provider.get(s, b, o))
        }) {
            log_fde(ctx, &f);
        }
    }
    // address lookups: legitimately FDEs x CIE-parse, budget n_a * n_b
    let budget = 64 * (n as u64 + 1) * (n as u64 / 8 + 1) + (1 << 20);
    let mut addrs: Vec<u64> = probe_addrs.iter().copied().take(6).collect();
    addrs.push(lad[((sel >> 11) % lad.len() as u64) as usize]);
    addrs.push(TEXT_ADDR + (sel % 0x200));
    for &a in &addrs {
        ctx.enter_with_budget(names.fde_for_address, budget);
        match sec.fde_for_address(bases, a, |s, b, o| provider.get(s, b, o)) {
            Ok(f) => {
                ctx.item();
                ev!(ctx, "fde_for_address({:#x}) -> off={} contains={}", a, f.offset(), f.contains(a));
            }
            Err(e) => ctx.err(&e),
        }
        ctx.enter_with_budget(names.unwind_info_for_address, budget);
        match sec.unwind_info_for_address(bases, &mut uctx, a, |s, b, o| provider.get(s, b, o)) {
            Ok(row) => {
                ctx.item();
                let row = row.clone();
                ev!(ctx, "unwind_info_for_address({:#x})", a);
                log_row(ctx, &row);
            }
            Err(e) => ctx.err(&e),
        }
    }
    probe_addrs
}

fn cfi_with_storage<'a, R: Reader<Offset = usize> + 'a, St: UnwindContextStorage<usize>>(
    mk: &dyn Fn(&'a [u8]) -> R,
    case: &'a Case,
    ctx: &mut Ctx<'_>,
) {
    let asz = case.knob("addr_size", 8) as u8;
    let sel = case.knob("sel", 0) as u64;
    let bases = bases_of(case);
    let vendor = if case.knob("vendor", 0) != 0 { Vendor::AArch64 } else { Vendor::Default };
    let ehb = case.sec("eh_frame");
    let dfb = case.sec("debug_frame");
    let hb = case.sec("eh_frame_hdr");

    let mut eh = EhFrame::from(mk(ehb));
    eh.set_address_size(asz);
    eh.set_vendor(vendor);
    let addrs = drive_section::<R, _, St>(ctx, &eh, &EH, &bases, case, ehb.len(), &|o| gimli::EhFrameOffset(o));

    let mut df = DebugFrame::from(mk(dfb));
    df.set_address_size(asz);
    df.set_vendor(vendor);
    let _ = drive_section::<R, _, St>(ctx, &df, &DF, &bases, case, dfb.len(), &|o| gimli::DebugFrameOffset(o));

    // .eh_frame_hdr
    let hdr = EhFrameHdr::from(mk(hb));
    let parsed = match call_q(ctx, "eh_frame_hdr.parse", || hdr.parse(&bases, asz)) {
        Some(p) => p,
        None => return,
    };
    ev!(ctx, "hdr eh_frame_ptr={:?}", parsed.eh_frame_ptr());
    let table = match parsed.table() {
        Some(t) => t,
        None => {
            ev!(ctx, "hdr no table");
            return;
        }
    };
    let provider: CieProvider<R> = CieProvider::new(case);
    {
        // the iterator through std's Iterator interface, the way `collect()` uses it: the lower
        // bound of size_hint is what the collection reserves up front
        ctx.enter("eh_frame_hdr.table.iter.collect");
        let v: Vec<_> = Iterator::collect(table.iter(&bases));
        ev!(ctx, "collected {}", v.len());
    }
    let mut it = table.iter(&bases);
    let mut rows = 0u64;
    drain(ctx, "eh_frame_hdr.table.iter.next", hb.len(), Fused::No, || it.next(), |ctx, (a, b)| {
        rows += 1;
        ev!(ctx, "hdr_row {:?} {:?}", a, b);
    });
    if rows >= 4 {
        ctx.probe("hdr_table_4plus_rows");
    }
    for nth in [0usize, 1, 2, (sel % 7) as usize, usize::MAX, 1 << 60, 1 << 61] {
        let mut it = table.iter(&bases);
        let _ = call(ctx, "eh_frame_hdr.table.iter.nth", || it.nth(nth));
    }
    let mut probe: Vec<u64> = addrs.into_iter().take(6).collect();
    probe.push(0);
    probe.push(u64::MAX);
    probe.push(TEXT_ADDR + (sel % 0x300));
    let mut uctx: UnwindContext<usize, St> = UnwindContext::new_in();
    for &a in &probe {
        if let Some(p) = call(ctx, "eh_frame_hdr.table.lookup", || table.lookup(a, &bases)) {
            let _ = call(ctx, "eh_frame_hdr.table.pointer_to_offset", || table.pointer_to_offset(p).map(|o| o.0));
        }
        ctx.enter("eh_frame_hdr.table.fde_for_address");
        match table.fde_for_address(&eh, &bases, a, |s, b, o| provider.get(s, b, o)) {
            Ok(f) => {
                ctx.item();
                ev!(ctx, "hdr fde_for_address({:#x}) -> off={}", a, f.offset());
            }
            Err(e) => ctx.err(&e),
        }
        ctx.enter("eh_frame_hdr.table.unwind_info_for_address");
        match table.unwind_info_for_address(&eh, &bases, &mut uctx, a, |s, b, o| provider.get(s, b, o)) {
            Ok(row) => {
                ctx.item();
                let row = row.clone();
                log_row(ctx, &row);
            }
            Err(e) => ctx.err(&e),
        }
    }
}

pub fn cfi<'a, R: Reader<Offset = usize> + 'a>(mk: &dyn Fn(&'a [u8]) -> R, case: &'a Case, ctx: &mut Ctx<'_>) {
    match case.knob("storage", 0) {
        1 => {
            ctx.probe("storage_fixed_2x3");
            cfi_with_storage::<R, Fixed<2, 3>>(mk, case, ctx)
        }
        2 => {
            ctx.probe("storage_unbounded");
            cfi_with_storage::<R, Unbounded>(mk, case, ctx)
        }
        _ => cfi_with_storage::<R, StoreOnHeap>(mk, case, ctx),
    }
}
