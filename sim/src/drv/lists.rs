//! Drivers for range lists and location lists (.debug_ranges/.debug_rnglists,
//! .debug_loc/.debug_loclists) with the C08 "for any input whatsoever" monitor.

use super::{call, call_q, drain, ladder, Fused};
use crate::case::Case;
use crate::ctx::Ctx;
use crate::ev;
use gimli::{
    DebugAddr, DebugAddrBase, DebugLoc, DebugLocLists, DebugLocListsBase, DebugLocListsIndex,
    DebugRanges, DebugRngLists, DebugRngListsBase, DebugRngListsIndex, Encoding, Format,
    LocationLists, LocationListsOffset, Range, RangeLists, RangeListsOffset, RawLocListEntry,
    Reader,
};

pub fn min_tombstone(address_size: u8) -> u64 {
    let mask = if address_size >= 8 { u64::MAX } else { (1u64 << (8 * address_size as u32)) - 1 };
    mask - 1
}

/// C08-inv: every yielded range is non-empty and begins below the tombstones.
pub fn check_range(ctx: &mut Ctx<'_>, r: &Range, address_size: u8) {
    if ctx.mon.c08 {
        if r.begin >= r.end {
            ctx.violate("c08_empty_range", format!("yielded range {:#x}..{:#x} is empty or inverted", r.begin, r.end));
        }
        // "non-empty" is a statement about target addresses: a range whose bounds, taken as
        // addresses of the unit's address size, are equal or inverted covers nothing
        let mask = if address_size >= 8 { u64::MAX } else { (1u64 << (8 * address_size as u32)) - 1 };
        if r.end > mask || r.begin > mask {
            ctx.probe("c08_bound_wider_than_address_size");
            if (r.begin & mask) >= (r.end & mask) {
                ctx.violate(
                    "c08_empty_range",
                    format!("yielded range {:#x}..{:#x} is empty or inverted as {}-byte addresses", r.begin, r.end, address_size),
                );
            }
        }
        if r.begin >= min_tombstone(address_size) {
            ctx.violate(
                "c08_tombstone",
                format!("yielded range begins at {:#x} >= tombstone {:#x} (address size {})", r.begin, min_tombstone(address_size), address_size),
            );
        }
    }
}

pub fn encoding_of(case: &Case) -> Encoding {
    Encoding {
        address_size: case.knob("addr_size", 8) as u8,
        format: if case.knob("d64", 0) != 0 { Format::Dwarf64 } else { Format::Dwarf32 },
        version: case.knob("version", 4) as u16,
    }
}

fn log_raw_loc<R: Reader<Offset = usize>>(ctx: &mut Ctx<'_>, e: &RawLocListEntry<R>) {
    match e {
        RawLocListEntry::AddressOrOffsetPair { begin, end, data } => {
            ev!(ctx, "rawloc AddressOrOffsetPair {:#x} {:#x}", begin, end);
            ctx.bytes_of("  data", &data.0);
        }
        RawLocListEntry::BaseAddress { addr } => {
            ev!(ctx, "rawloc BaseAddress {:#x}", addr);
        }
        RawLocListEntry::BaseAddressx { addr } => {
            ev!(ctx, "rawloc BaseAddressx {}", addr.0);
        }
        RawLocListEntry::StartxEndx { begin, end, data } => {
            ev!(ctx, "rawloc StartxEndx {} {}", begin.0, end.0);
            ctx.bytes_of("  data", &data.0);
        }
        RawLocListEntry::StartxLength { begin, length, data } => {
            ev!(ctx, "rawloc StartxLength {} {:#x}", begin.0, length);
            ctx.bytes_of("  data", &data.0);
        }
        RawLocListEntry::OffsetPair { begin, end, data } => {
            ev!(ctx, "rawloc OffsetPair {:#x} {:#x}", begin, end);
            ctx.bytes_of("  data", &data.0);
        }
        RawLocListEntry::DefaultLocation { data } => {
            ev!(ctx, "rawloc DefaultLocation");
            ctx.bytes_of("  data", &data.0);
        }
        RawLocListEntry::StartEnd { begin, end, data } => {
            ev!(ctx, "rawloc StartEnd {:#x} {:#x}", begin, end);
            ctx.bytes_of("  data", &data.0);
        }
        RawLocListEntry::StartLength { begin, length, data } => {
            ev!(ctx, "rawloc StartLength {:#x} {:#x}", begin, length);
            ctx.bytes_of("  data", &data.0);
        }
    }
}

pub fn lists<'a, R: Reader<Offset = usize> + 'a>(
    mk: &dyn Fn(&'a [u8]) -> R,
    case: &'a Case,
    ctx: &mut Ctx<'_>,
) {
    let enc = encoding_of(case);
    let asz = enc.address_size;
    let sel = case.knob("sel", 0) as u64;
    let base_address = case.knob("base_address", 0) as u64;
    let addr_base = DebugAddrBase(case.knob("addr_base", 8) as usize);
    let debug_addr = DebugAddr::from(mk(case.sec("debug_addr")));
    let rl = RangeLists::new(
        DebugRanges::from(mk(case.sec("debug_ranges"))),
        DebugRngLists::from(mk(case.sec("debug_rnglists"))),
    );
    let ll = LocationLists::new(
        DebugLoc::from(mk(case.sec("debug_loc"))),
        DebugLocLists::from(mk(case.sec("debug_loclists"))),
    );
    let rn = if enc.version <= 4 { case.sec("debug_ranges").len() } else { case.sec("debug_rnglists").len() };
    let ln = if enc.version <= 4 { case.sec("debug_loc").len() } else { case.sec("debug_loclists").len() };
    if enc.version >= 5 {
        ctx.probe("lists_v5");
    }

    // list offsets: data-provided (knob), 0, header-skipping, a ladder value
    let lad = ladder(rn as u64);
    let mut roffs = vec![case.knob("list_off", 0) as usize, 0, 12, 20, lad[(sel % lad.len() as u64) as usize] as usize];
    roffs.dedup();
    for &off in &roffs {
        if let Some(mut it) = call_q(ctx, "rnglists.raw_ranges", || rl.raw_ranges(RangeListsOffset(off), enc)) {
            drain(ctx, "rnglists.raw.next", rn, Fused::No, || it.next(), |ctx, e| {
                ev!(ctx, "rawrng {:?}", e);
            });
        }
        if let Some(mut it) =
            call_q(ctx, "rnglists.ranges", || rl.ranges(RangeListsOffset(off), enc, base_address, &debug_addr, addr_base))
        {
            drain(ctx, "rnglists.iter.next", rn, Fused::No, || it.next(), |ctx, r| {
                ev!(ctx, "range {:#x}..{:#x}", r.begin, r.end);
                check_range(ctx, &r, asz);
            });
        }
        // next_raw / convert_raw split, as unit_ranges-style callers use it
        if let Some(mut it) =
            call_q(ctx, "rnglists.ranges", || rl.ranges(RangeListsOffset(off), enc, base_address, &debug_addr, addr_base))
        {
            let mut guard = crate::ctx::LoopGuard::new(ctx.iter_bound(rn));
            loop {
                ctx.enter("rnglists.iter.next_raw");
                if !guard.step(ctx) {
                    break;
                }
                match it.next_raw() {
                    Ok(Some(raw)) => {
                        ctx.item();
                        ctx.enter("rnglists.iter.convert_raw");
                        match it.convert_raw(raw) {
                            Ok(Some(r)) => {
                                ev!(ctx, "range {:#x}..{:#x}", r.begin, r.end);
                                check_range(ctx, &r, asz);
                            }
                            Ok(None) => {}
                            Err(e) => ctx.err(&e),
                        }
                    }
                    Ok(None) => {
                        ctx.end();
                        break;
                    }
                    Err(e) => ctx.err(&e),
                }
            }
        }
    }
    let lad = ladder(ln as u64);
    let mut loffs = vec![case.knob("list_off", 0) as usize, 0, 12, 20, lad[((sel >> 8) % lad.len() as u64) as usize] as usize];
    loffs.dedup();
    let dwo = case.knob("dwo", 0) != 0;
    for &off in &loffs {
        let raw = if dwo {
            call_q(ctx, "loclists.raw_locations_dwo", || ll.raw_locations_dwo(LocationListsOffset(off), enc))
        } else {
            call_q(ctx, "loclists.raw_locations", || ll.raw_locations(LocationListsOffset(off), enc))
        };
        if let Some(mut it) = raw {
            drain(ctx, "loclists.raw.next", ln, Fused::No, || it.next(), |ctx, e| log_raw_loc(ctx, &e));
        }
        let cooked = if dwo {
            call_q(ctx, "loclists.locations_dwo", || {
                ll.locations_dwo(LocationListsOffset(off), enc, base_address, &debug_addr, addr_base)
            })
        } else {
            call_q(ctx, "loclists.locations", || {
                ll.locations(LocationListsOffset(off), enc, base_address, &debug_addr, addr_base)
            })
        };
        if let Some(mut it) = cooked {
            drain(ctx, "loclists.iter.next", ln, Fused::No, || it.next(), |ctx, e| {
                ev!(ctx, "loc {:#x}..{:#x}", e.range.begin, e.range.end);
                ctx.bytes_of("  data", &e.data.0);
                check_range(ctx, &e.range, asz);
            });
        }
    }
    // offset tables
    for &fmt in &[Format::Dwarf32, Format::Dwarf64] {
        let e = Encoding { format: fmt, ..enc };
        for &b in &[0usize, 12, rn, usize::MAX] {
            for idx in [0u64, 1, 3, 1 << 61, 1 << 62, u64::MAX] {
                let _ = call(ctx, "rnglists.get_offset", || {
                    rl.get_offset(e, DebugRngListsBase(b), DebugRngListsIndex(idx as usize))
                });
                let _ = call(ctx, "loclists.get_offset", || {
                    ll.get_offset(e, DebugLocListsBase(b), DebugLocListsIndex(idx as usize))
                });
            }
        }
    }
}
