//! Drivers for .debug_line and .debug_macinfo/.debug_macro.

use super::{call_q, drain, ladder, Fused};
use crate::case::Case;
use crate::ctx::Ctx;
use crate::ev;
use gimli::{
    AttributeValue, DebugLine, DebugLineOffset, DebugMacinfo, DebugMacinfoOffset, DebugMacro,
    DebugMacroOffset, FileEntry, LineInstruction, LineProgramHeader, LineRow, MacroEntry,
    MacroString, Reader,
};

pub fn log_attr_value<R: Reader<Offset = usize>>(ctx: &mut Ctx<'_>, what: &str, v: &AttributeValue<R>) {
    match v {
        AttributeValue::Block(r) => {
            ev!(ctx, "{} Block", what);
            ctx.bytes_of("  bytes", r)
        }
        AttributeValue::String(r) => {
            ev!(ctx, "{} String", what);
            ctx.bytes_of("  bytes", r)
        }
        AttributeValue::Exprloc(e) => {
            ev!(ctx, "{} Exprloc", what);
            ctx.bytes_of("  bytes", &e.0)
        }
        other => {
            ev!(ctx, "{} {:?}", what, other);
        }
    }
}

fn log_file<R: Reader<Offset = usize>>(ctx: &mut Ctx<'_>, what: &str, f: &FileEntry<R>, h: &LineProgramHeader<R>) {
    ev!(
        ctx,
        "{} dir={} ts={} size={} md5={:?}",
        what,
        f.directory_index(),
        f.timestamp(),
        f.size(),
        f.md5()
    );
    log_attr_value(ctx, "  path", &f.path_name());
    if let Some(d) = f.directory(h) {
        log_attr_value(ctx, "  dir", &d);
    }
    if let Some(s) = f.source() {
        log_attr_value(ctx, "  source", &s);
    }
}

pub fn log_header<R: Reader<Offset = usize>>(ctx: &mut Ctx<'_>, h: &LineProgramHeader<R>) {
    ev!(
        ctx,
        "line_header off={} unit_len={} enc={:?} hdr_len={} le={:?} stmt={} base={} range={} opbase={}",
        h.offset().0,
        h.unit_length(),
        h.encoding(),
        h.header_length(),
        h.line_encoding(),
        h.default_is_stmt(),
        h.line_base(),
        h.line_range(),
        h.opcode_base()
    );
    if h.version() >= 5 {
        ctx.probe("line_v5");
    }
    if h.maximum_operations_per_instruction() > 1 {
        ctx.probe("line_vliw");
    }
    ctx.bytes_of("  std_opcode_lengths", h.standard_opcode_lengths());
    ev!(ctx, "  dir_fmt={:?} file_fmt={:?}", h.directory_entry_format(), h.file_name_entry_format());
    ev!(
        ctx,
        "  has ts={} size={} md5={} src={}",
        h.file_has_timestamp(),
        h.file_has_size(),
        h.file_has_md5(),
        h.file_has_source()
    );
    for (i, d) in h.include_directories().iter().enumerate().take(16) {
        log_attr_value(ctx, &format!("  incdir[{}]", i), d);
    }
    for (i, f) in h.file_names().iter().enumerate().take(16) {
        log_file(ctx, &format!("  file[{}]", i), f, h);
    }
    let nd = h.include_directories().len() as u64;
    for i in ladder(nd) {
        if let Some(d) = h.directory(i) {
            log_attr_value(ctx, &format!("  directory({})", i), &d);
        }
    }
    let nf = h.file_names().len() as u64;
    for i in ladder(nf) {
        if let Some(f) = h.file(i) {
            log_file(ctx, &format!("  file({})", i), f, h);
        }
    }
    ctx.bytes_of("  program", &h.raw_program_buf());
}

pub fn log_instruction<R: Reader<Offset = usize>>(ctx: &mut Ctx<'_>, i: &LineInstruction<R>, h: &LineProgramHeader<R>) {
    match i {
        LineInstruction::UnknownStandardN(op, r) => {
            ev!(ctx, "ins UnknownStandardN {:?}", op);
            ctx.bytes_of("  args", r);
        }
        LineInstruction::UnknownExtended(op, r) => {
            ev!(ctx, "ins UnknownExtended {:?}", op);
            ctx.bytes_of("  data", r);
        }
        LineInstruction::DefineFile(f) => log_file(ctx, "ins DefineFile", f, h),
        other => {
            ev!(ctx, "ins {:?}", other);
        }
    }
}

/// State of the C04 "for any input whatsoever" monitor for one row stream.
pub struct RowMonitor {
    prev: Option<u64>,
    mask: u64,
}

impl RowMonitor {
    pub fn new(address_size: u8) -> RowMonitor {
        let mask = if address_size >= 8 { u64::MAX } else { (1u64 << (8 * address_size as u32)) - 1 };
        RowMonitor { prev: None, mask }
    }
    pub fn row(&mut self, ctx: &mut Ctx<'_>, row: &LineRow) {
        ev!(
            ctx,
            "row {:#x} op={} file={} line={:?} col={:?} stmt={} bb={} end={} pe={} eb={} isa={} disc={}",
            row.address(),
            row.op_index(),
            row.file_index(),
            row.line(),
            row.column(),
            row.is_stmt(),
            row.basic_block(),
            row.end_sequence(),
            row.prologue_end(),
            row.epilogue_begin(),
            row.isa(),
            row.discriminator()
        );
        if ctx.mon.c04 {
            if let Some(p) = self.prev {
                if row.address() < p {
                    ctx.violate(
                        "c04_monotone",
                        format!("row address {:#x} after {:#x} within one sequence", row.address(), p),
                    );
                }
            }
            if row.address() > self.mask {
                ctx.violate(
                    "c04_addr_size",
                    format!("row address {:#x} exceeds the address size mask {:#x}", row.address(), self.mask),
                );
            }
        }
        self.prev = if row.end_sequence() { None } else { Some(row.address()) };
    }
}

pub fn line<'a, R: Reader<Offset = usize> + 'a>(
    mk: &dyn Fn(&'a [u8]) -> R,
    case: &'a Case,
    ctx: &mut Ctx<'_>,
) {
    let bytes = case.sec("debug_line");
    let n = bytes.len();
    let sec = DebugLine::from(mk(bytes));
    let asz = case.knob("addr_size", 8) as u8;
    let sel = case.knob("sel", 0) as u64;
    // program offsets: 0, data-derived record boundaries, a boundary ladder
    let mut offs = vec![0usize];
    {
        let mut o = 0usize;
        let be = case.knob("be", 0) != 0;
        while o + 4 <= n && offs.len() < 6 {
            let w = [bytes[o], bytes[o + 1], bytes[o + 2], bytes[o + 3]];
            let len = if be { u32::from_be_bytes(w) } else { u32::from_le_bytes(w) } as usize;
            let next = o.saturating_add(4).saturating_add(len);
            if next <= o || next > n {
                break;
            }
            o = next;
            offs.push(o);
        }
    }
    let lad: Vec<u64> = ladder(n as u64);
    offs.push(lad[(sel % lad.len() as u64) as usize] as usize);
    offs.push(lad[((sel >> 8) % lad.len() as u64) as usize] as usize);
    offs.dedup();
    for (pi, &off) in offs.iter().enumerate() {
        let with_comp = (sel >> 4) & 1 == 0;
        let prog = call_q(ctx, "line.program", || {
            sec.program(
                DebugLineOffset(off),
                asz,
                if with_comp { Some(mk(b"/comp/dir")) } else { None },
                if with_comp { Some(mk(b"comp_name.c")) } else { None },
            )
        });
        let prog = match prog {
            Some(p) => p,
            None => continue,
        };
        if pi < 2 {
            log_header(ctx, prog.header());
        }
        let header = prog.header().clone();
        // 1. raw instructions
        let mut ins = header.instructions();
        drain(
            ctx,
            "line.instructions.next_instruction",
            n,
            Fused::Yes,
            || ins.next_instruction(&header),
            |ctx, i| log_instruction(ctx, &i, &header),
        );
        // 1b. the state machine driven by hand through the public pieces, the way
        //     `write::ConvertLineProgram` does it: reset, then execute each instruction
        {
            let mut p = prog.clone();
            let mut row = gimli::LineRow::new(&header);
            let mut ins = header.instructions();
            let mut emitted = false;
            drain(
                ctx,
                "line.row.execute",
                n,
                Fused::No,
                || match ins.next_instruction(&header)? {
                    None => Ok(None),
                    Some(i) => {
                        if emitted {
                            row.reset(&header);
                        }
                        emitted = row.execute(i, &mut p)?;
                        Ok(Some((emitted, row)))
                    }
                },
                |ctx, (e, r)| {
                    if e {
                        ev!(ctx, "hand row {:#x} op={} line={:?} file={} end={}", r.address(), r.op_index(), r.line(), r.file_index(), r.end_sequence());
                    }
                },
            );
        }
        // 2. one-shot rows
        let mut rows = prog.clone().rows();
        let mut mon = RowMonitor::new(header.address_size());
        drain(
            ctx,
            "line.rows.next_row",
            n,
            Fused::No,
            || rows.next_row().map(|o| o.map(|(_, r)| *r)),
            |ctx, r| mon.row(ctx, &r),
        );
        // file table after DefineFile instructions
        let nf = rows.header().file_names().len();
        ev!(ctx, "files_after_rows {}", nf);
        // 3. sequences + resume
        ctx.enter_with_budget("line.sequences", 2 * ctx.linear_budget());
        match prog.sequences() {
            Ok((complete, seqs)) => {
                ctx.item();
                ev!(ctx, "sequences {}", seqs.len());
                if seqs.len() >= 2 {
                    ctx.probe("line_multi_sequence");
                }
                // resume in a seed-chosen order
                let k = seqs.len();
                for j in 0..k.min(8) {
                    let s = &seqs[((sel as usize).wrapping_add(j * 7)) % k];
                    ev!(ctx, "sequence {:#x}..{:#x}", s.start, s.end);
                    let mut rows = complete.resume_from(s);
                    let mut mon = RowMonitor::new(complete.header().address_size());
                    drain(
                        ctx,
                        "line.resume_from.next_row",
                        n,
                        Fused::No,
                        || rows.next_row().map(|o| o.map(|(_, r)| *r)),
                        |ctx, r| mon.row(ctx, &r),
                    );
                }
            }
            Err(e) => ctx.err(&e),
        }
    }
}

fn log_macro_string<R: Reader<Offset = usize>>(ctx: &mut Ctx<'_>, what: &str, s: &MacroString<R>) {
    match s {
        MacroString::Direct(r) => ctx.bytes_of(what, r),
        other => {
            ev!(ctx, "{} {:?}", what, other);
        }
    }
}

pub fn log_macro<R: Reader<Offset = usize>>(ctx: &mut Ctx<'_>, e: &MacroEntry<R>) {
    match e {
        MacroEntry::Define { line, text } => {
            ev!(ctx, "macro Define line={}", line);
            log_macro_string(ctx, "  text", text);
        }
        MacroEntry::Undef { line, name } => {
            ev!(ctx, "macro Undef line={}", line);
            log_macro_string(ctx, "  name", name);
        }
        MacroEntry::VendorExt { numeric, string } => {
            ev!(ctx, "macro VendorExt {}", numeric);
            ctx.bytes_of("  string", string);
        }
        other => {
            ev!(ctx, "macro {:?}", other);
        }
    }
}

pub fn macros<'a, R: Reader<Offset = usize> + 'a>(
    mk: &dyn Fn(&'a [u8]) -> R,
    case: &'a Case,
    ctx: &mut Ctx<'_>,
) {
    let ib = case.sec("debug_macinfo");
    let mb = case.sec("debug_macro");
    let sel = case.knob("sel", 0) as u64;
    let macinfo = DebugMacinfo::from(mk(ib));
    let mut offs = vec![0usize, 1];
    let lad = ladder(ib.len() as u64);
    offs.push(lad[(sel % lad.len() as u64) as usize] as usize);
    for &off in &offs {
        if let Some(mut it) = call_q(ctx, "macinfo.get_macinfo", || macinfo.get_macinfo(DebugMacinfoOffset(off))) {
            drain(ctx, "macinfo.iter.next", ib.len(), Fused::Yes, || it.next(), |ctx, e| log_macro(ctx, &e));
        }
    }
    let macro_ = DebugMacro::from(mk(mb));
    let mut offs = vec![0usize, 1];
    let lad = ladder(mb.len() as u64);
    offs.push(lad[(sel % lad.len() as u64) as usize] as usize);
    for &off in &offs {
        if let Some(mut it) = call_q(ctx, "macro.get_macros", || macro_.get_macros(DebugMacroOffset(off))) {
            drain(ctx, "macro.iter.next", mb.len(), Fused::Yes, || it.next(), |ctx, e| log_macro(ctx, &e));
        }
    }
}
