//! Driver for DWARF expressions: Operation::parse, OperationIter and the Evaluation
//! coroutine driven by the simulated World (the other party of the resume protocol).

use super::{drain, Fused};
use crate::case::Case;
use crate::ctx::Ctx;
use crate::ev;
use crate::world::World;
use gimli::{
    DieReference, Encoding, Evaluation, EvaluationResult, EvaluationStorage, Expression, Format,
    Location, Operation, Piece, Reader, Result, StoreOnHeap, Value,
};

#[derive(Debug, Clone, Copy)]
pub struct EvalFixed<const A: usize, const B: usize, const C: usize>;

impl<R: Reader, const A: usize, const B: usize, const C: usize> EvaluationStorage<R> for EvalFixed<A, B, C> {
    type Stack = [Value; A];
    type ExpressionStack = [(R, R); B];
    type Result = [Piece<R>; C];
}

pub fn reader_hex<R: Reader>(ctx: &Ctx<'_>, r: &R) -> String {
    let was = ctx.sim.mute(true);
    let s = match r.to_slice() {
        Ok(b) => crate::case::hex(&b[..b.len().min(64)]),
        Err(_) => String::from("<unreadable>"),
    };
    ctx.sim.mute(was);
    s
}

pub fn op_string<R: Reader<Offset = usize>>(ctx: &Ctx<'_>, op: &Operation<R>) -> String {
    match op {
        Operation::ImplicitValue { data } => format!("ImplicitValue {}", reader_hex(ctx, data)),
        Operation::EntryValue { expression } => format!("EntryValue {}", reader_hex(ctx, expression)),
        Operation::TypedLiteral { base_type, value } => {
            format!("TypedLiteral bt={} {}", base_type.0, reader_hex(ctx, value))
        }
        other => format!("{:?}", other),
    }
}

/// Canonical text of a location (generic values modulo the address mask), shared with
/// the reference model.
pub fn location_string<R: Reader<Offset = usize>>(ctx: &Ctx<'_>, l: &Location<R>, mask: u64) -> String {
    match l {
        Location::Empty => "Empty".into(),
        Location::Register { register } => format!("Register({})", register.0),
        Location::Address { address } => format!("Address({:#x})", address),
        Location::Value { value } => format!("Value({})", crate::model::fmt_value(value, mask)),
        Location::Bytes { value } => format!("Bytes({})", reader_hex(ctx, value)),
        Location::ImplicitPointer { value, byte_offset } => format!("ImplicitPointer({},{})", value.0, byte_offset),
    }
}

pub fn piece_string<R: Reader<Offset = usize>>(ctx: &Ctx<'_>, p: &Piece<R>, mask: u64) -> String {
    format!("piece size={:?} off={:?} loc={}", p.size_in_bits, p.bit_offset, location_string(ctx, &p.location, mask))
}

pub fn die_ref_key(r: &DieReference<usize>) -> u64 {
    match r {
        DieReference::UnitRef(o) => o.0 as u64,
        DieReference::DebugInfoRef(o) => (o.0 as u64) ^ 0x8000_0000,
    }
}

/// How the simulated debugger behaves for one evaluation.
#[derive(Clone, Debug, Default)]
pub struct EvalCfg {
    pub max_iterations: Option<u32>,
    pub initial_value: Option<u64>,
    pub object_address: Option<u64>,
    /// abandon (drop) the evaluation at this suspension index
    pub abandon_at: Option<u64>,
    /// hard cap on suspensions the driver will answer (caller-side bound)
    pub max_suspensions: u64,
}

#[derive(Debug, Clone, PartialEq)]
pub enum EvalEnd {
    Complete,
    Error(gimli::Error),
    Abandoned,
    SuspensionCap,
}

/// Drive one evaluation to its end against `world`. `trace` receives one canonical line
/// per request and per result piece (compared with the reference model by E3).
pub fn run_evaluation<'a, R, S>(
    ctx: &mut Ctx<'_>,
    api: &'static str,
    mk: &dyn Fn(&'a [u8]) -> R,
    case: &'a Case,
    expr: R,
    enc: Encoding,
    world: &World,
    cfg: &EvalCfg,
    trace: &mut Vec<String>,
) -> EvalEnd
where
    R: Reader<Offset = usize> + 'a,
    S: EvaluationStorage<R>,
{
    let mut eval: Evaluation<R, S> = Evaluation::new_in(expr, enc);
    if let Some(m) = cfg.max_iterations {
        eval.set_max_iterations(m);
    }
    if let Some(v) = cfg.initial_value {
        eval.set_initial_value(v);
    }
    if let Some(v) = cfg.object_address {
        eval.set_object_address(v);
    }
    ctx.enter(api);
    let mut res: Result<EvaluationResult<R>> = eval.evaluate();
    let mut susp = 0u64;
    loop {
        let r = match res {
            Ok(r) => r,
            Err(e) => {
                ctx.err(&e);
                trace.push(format!("error {:?}", crate::ctx::err_name(&e)));
                return EvalEnd::Error(e);
            }
        };
        if let EvaluationResult::Complete = r {
            ctx.item();
            break;
        }
        if cfg.abandon_at == Some(susp) {
            ev!(ctx, "abandon at suspension {}", susp);
            return EvalEnd::Abandoned;
        }
        if susp >= cfg.max_suspensions {
            ev!(ctx, "suspension cap");
            return EvalEnd::SuspensionCap;
        }
        susp += 1;
        ctx.enter(api);
        res = match r {
            EvaluationResult::Complete => unreachable!(),
            EvaluationResult::RequiresMemory { address, size, space, base_type } => {
                trace.push(format!("mem addr={:#x} size={} space={:?} bt={}", address, size, space, base_type.0));
                eval.resume_with_memory(world.memory(address, size, space, base_type.0 as u64))
            }
            EvaluationResult::RequiresRegister { register, base_type } => {
                trace.push(format!("reg {} bt={}", register.0, base_type.0));
                eval.resume_with_register(world.register(register.0 as u64, base_type.0 as u64))
            }
            EvaluationResult::RequiresWasmLocal { index } => {
                trace.push(format!("wasm_local {}", index));
                eval.resume_with_wasm_value(world.wasm(0, index))
            }
            EvaluationResult::RequiresWasmGlobal { index } => {
                trace.push(format!("wasm_global {}", index));
                eval.resume_with_wasm_value(world.wasm(1, index))
            }
            EvaluationResult::RequiresWasmStack { index } => {
                trace.push(format!("wasm_stack {}", index));
                eval.resume_with_wasm_value(world.wasm(2, index))
            }
            EvaluationResult::RequiresFrameBase => {
                trace.push("frame_base".into());
                eval.resume_with_frame_base(world.frame_base())
            }
            EvaluationResult::RequiresTls(i) => {
                trace.push(format!("tls {:#x}", i));
                eval.resume_with_tls(world.tls(i))
            }
            EvaluationResult::RequiresCallFrameCfa => {
                trace.push("cfa".into());
                eval.resume_with_call_frame_cfa(world.cfa())
            }
            EvaluationResult::RequiresAtLocation(r) => {
                let key = die_ref_key(&r);
                trace.push(format!("at_location {:?}", r));
                let n = case.knob("nsubs", 0) as u64;
                let bytes: &'a [u8] = if n == 0 { &[] } else { case.sec(SUB_NAMES[(key % n) as usize % SUB_NAMES.len()]) };
                eval.resume_with_at_location(mk(bytes))
            }
            EvaluationResult::RequiresEntryValue(e) => {
                let was = ctx.sim.mute(true);
                let b = e.0.to_slice().map(|c| c.to_vec()).unwrap_or_default();
                ctx.sim.mute(was);
                trace.push(format!("entry_value {}", crate::case::hex(&b)));
                eval.resume_with_entry_value(world.entry_value(&b))
            }
            EvaluationResult::RequiresParameterRef(o) => {
                trace.push(format!("parameter_ref {}", o.0));
                eval.resume_with_parameter_ref(world.parameter_ref(o.0 as u64))
            }
            EvaluationResult::RequiresRelocatedAddress(a) => {
                trace.push(format!("relocated {:#x}", a));
                eval.resume_with_relocated_address(world.relocated(a))
            }
            EvaluationResult::RequiresIndexedAddress { index, relocate } => {
                trace.push(format!("indexed {} relocate={}", index.0, relocate));
                eval.resume_with_indexed_address(world.indexed(index.0 as u64, relocate))
            }
            EvaluationResult::RequiresBaseType(o) => {
                trace.push(format!("base_type {}", o.0));
                eval.resume_with_base_type(world.base_type(o.0 as u64))
            }
        };
    }
    // Complete: results are legal to read now
    let mask = world.addr_mask();
    let vr = eval.value_result();
    trace.push(match vr {
        Some(v) => format!("value_result Some({})", crate::model::fmt_value(&v, mask)),
        None => "value_result None".into(),
    });
    let pieces: Vec<String> = eval.as_result().iter().map(|p| piece_string(ctx, p, mask)).collect();
    for p in pieces {
        trace.push(p);
    }
    EvalEnd::Complete
}

pub const SUB_NAMES: [&str; 4] = ["expr_sub0", "expr_sub1", "expr_sub2", "expr_sub3"];

pub fn world_of(case: &Case) -> World {
    let mut w = World::new(case.knob("world_seed", 1) as u64, case.knob("addr_size", 8) as u8);
    w.chaos = case.knob("chaos", 0) as u64;
    let n = case.knob("nsubs", 0) as usize;
    for i in 0..n.min(SUB_NAMES.len()) {
        w.subs.push(case.sec(SUB_NAMES[i]).to_vec());
    }
    w
}

pub fn encoding_of(case: &Case) -> Encoding {
    Encoding {
        address_size: case.knob("addr_size", 8) as u8,
        format: if case.knob("d64", 0) != 0 { Format::Dwarf64 } else { Format::Dwarf32 },
        version: case.knob("version", 4) as u16,
    }
}


/// Direct calls of the public `Value` / `ValueType` API (what an embedding debugger may call on
/// answers it builds itself): every method on a pair of values of any - also mismatched - types
/// drawn from the boundary values of their type, under the address masks of the four address
/// sizes. Only crash-freedom is demanded here (E3 compares results through the evaluator).
pub fn value_api(ctx: &mut Ctx<'_>, bytes: &[u8], addr_size: u8) {
    use gimli::ValueType as T;
    let mut h: u64 = 0xcbf2_9ce4_8422_2325 ^ addr_size as u64;
    for b in bytes.iter().take(64) {
        h = (h ^ *b as u64).wrapping_mul(0x100_0000_01b3);
    }
    let mut next = || {
        h ^= h << 13;
        h ^= h >> 7;
        h ^= h << 17;
        h
    };
    const TYPES: [T; 11] = [T::Generic, T::I8, T::U8, T::I16, T::U16, T::I32, T::U32, T::I64, T::U64, T::F32, T::F64];
    let mut mkv = |next: &mut dyn FnMut() -> u64| -> Value {
        let t = TYPES[(next() % 11) as usize];
        let raw = match next() % 8 {
            0 => 0,
            1 => 1,
            2 => u64::MAX,
            3 => 1 << 63,
            4 => (1 << 63) - 1,
            5 => 63 + next() % 4,
            6 => 1 << (next() % 64),
            _ => next(),
        };
        match t {
            T::Generic => Value::Generic(raw),
            T::I8 => Value::I8(if raw == 1 << 63 { i8::MIN } else if raw == (1 << 63) - 1 { i8::MAX } else { raw as i8 }),
            T::U8 => Value::U8(raw as u8),
            T::I16 => Value::I16(if raw == 1 << 63 { i16::MIN } else if raw == (1 << 63) - 1 { i16::MAX } else { raw as i16 }),
            T::U16 => Value::U16(raw as u16),
            T::I32 => Value::I32(if raw == 1 << 63 { i32::MIN } else if raw == (1 << 63) - 1 { i32::MAX } else { raw as i32 }),
            T::U32 => Value::U32(raw as u32),
            T::I64 => Value::I64(raw as i64),
            T::U64 => Value::U64(raw),
            T::F32 => Value::F32(match raw % 5 {
                0 => f32::NAN,
                1 => f32::INFINITY,
                2 => -1.5e38,
                3 => 1.8446744e19,
                _ => f32::from_bits(raw as u32),
            }),
            T::F64 => Value::F64(match raw % 5 {
                0 => f64::NAN,
                1 => f64::NEG_INFINITY,
                2 => 1.8446744073709552e19,
                3 => -9.223372036854775808e18,
                _ => f64::from_bits(raw),
            }),
        }
    };
    let mask = match addr_size {
        1 => 0xff,
        2 => 0xffff,
        4 => 0xffff_ffff,
        _ => u64::MAX,
    };
    for _ in 0..2 {
        let a = mkv(&mut next);
        let b = mkv(&mut next);
        let t = TYPES[(next() % 11) as usize];
        ev!(ctx, "value_api a={:?} b={:?} t={:?}", a, b, t);
        ctx.enter("value.api");
        let _ = a.value_type().bit_size(mask);
        let _ = a.to_u64(mask);
        let _ = Value::from_u64(t, next());
        let _ = a.convert(t, mask);
        let _ = a.reinterpret(t, mask);
        let _ = a.abs(mask);
        let _ = a.neg(mask);
        let _ = a.not(mask);
        let _ = a.add(b, mask);
        let _ = a.sub(b, mask);
        let _ = a.mul(b, mask);
        let _ = a.div(b, mask);
        let _ = a.rem(b, mask);
        let _ = a.and(b, mask);
        let _ = a.or(b, mask);
        let _ = a.xor(b, mask);
        let _ = a.shl(b, mask);
        let _ = a.shr(b, mask);
        let _ = a.shra(b, mask);
        let _ = a.eq(b, mask);
        let _ = a.ge(b, mask);
        let _ = a.gt(b, mask);
        let _ = a.le(b, mask);
        let _ = a.lt(b, mask);
        let _ = a.ne(b, mask);
        let _ = T::from_encoding(gimli::DwAte((next() % 0x14) as u8), next() % 18);
        ctx.item();
    }
}

pub fn ops<'a, R: Reader<Offset = usize> + 'a>(mk: &dyn Fn(&'a [u8]) -> R, case: &'a Case, ctx: &mut Ctx<'_>) {
    let bytes = case.sec("expr");
    let n = ctx.n_bytes;
    let enc = encoding_of(case);
    let world = world_of(case);
    // 1. decode: operations() iterator, and Operation::parse at every offset
    let expr = Expression(mk(bytes));
    let mut it = expr.clone().operations(enc);
    let mut nops = 0;
    drain(ctx, "op.operations.next", bytes.len(), Fused::No, || it.next(), |ctx, op| {
        nops += 1;
        let s = op_string(ctx, &op);
        ev!(ctx, "op {}", s);
    });
    ev!(ctx, "nops {}", nops);
    for off in 0..bytes.len().min(24) {
        let mut r = mk(&bytes[off..]);
        ctx.enter("op.parse");
        match Operation::parse(&mut r, enc) {
            Ok(op) => {
                ctx.item();
                let s = op_string(ctx, &op);
                ev!(ctx, "parse@{} {} rest={}", off, s, r.len());
            }
            Err(e) => ctx.err(&e),
        }
    }
    // 2. evaluate under a few caller configurations
    let mi = case.knob("max_iter", 200);
    let cfg = EvalCfg {
        max_iterations: if mi < 0 { None } else { Some(mi as u32) },
        initial_value: if case.knob("has_init", 0) != 0 { Some(case.knob("init", 0) as u64) } else { None },
        object_address: if case.knob("has_obj", 0) != 0 { Some(case.knob("obj", 0) as u64) } else { None },
        abandon_at: if case.knob("abandon", -1) >= 0 { Some(case.knob("abandon", 0) as u64) } else { None },
        max_suspensions: 4 * n as u64 + 64,
    };
    let mut trace = Vec::new();
    let end = match case.knob("storage", 0) {
        1 => {
            ctx.probe("eval_storage_fixed_small");
            run_evaluation::<R, EvalFixed<3, 1, 1>>(ctx, "eval.fixed_small", mk, case, mk(bytes), enc, &world, &cfg, &mut trace)
        }
        2 => run_evaluation::<R, EvalFixed<64, 4, 4>>(ctx, "eval.fixed_64", mk, case, mk(bytes), enc, &world, &cfg, &mut trace),
        _ => run_evaluation::<R, StoreOnHeap>(ctx, "eval.heap", mk, case, mk(bytes), enc, &world, &cfg, &mut trace),
    };
    for l in &trace {
        ev!(ctx, "  {}", l);
    }
    if trace.iter().filter(|l| l.starts_with("at_location")).count() >= 2 {
        ctx.probe("eval_nested_calls_2plus");
    }
    if trace.iter().any(|l| l.starts_with("piece size=Some")) {
        ctx.probe("eval_composite_pieces");
    }
    ev!(ctx, "eval_end {:?}", matches!(end, EvalEnd::Complete));
    // 3. the public Value API called directly
    value_api(ctx, bytes, enc.address_size);
}
