//! Run execution: one Case -> one Outcome, with panics caught and classified.

use crate::case::Case;
use crate::ctx::{ApiStat, Ctx, Monitors, Violation};
use crate::fault::{FaultPlan, SimAbort, SimState};
use std::cell::RefCell;
use std::collections::{BTreeMap, BTreeSet};
use std::panic::{catch_unwind, AssertUnwindSafe};

#[derive(Clone, Debug, Default)]
pub struct PanicRec {
    pub msg: String,
    pub file: String,
    pub line: u32,
}

thread_local! {
    static LAST_PANIC: RefCell<Option<PanicRec>> = const { RefCell::new(None) };
    static IN_RUN: std::cell::Cell<bool> = const { std::cell::Cell::new(false) };
}

/// Install the process-wide panic hook: silent, records message and location.
pub fn install_panic_hook() {
    std::panic::set_hook(Box::new(|info| {
        let payload = info.payload();
        let msg = if payload.downcast_ref::<SimAbort>().is_some() {
            String::from("<SimAbort>")
        } else if let Some(s) = payload.downcast_ref::<&str>() {
            s.to_string()
        } else if let Some(s) = payload.downcast_ref::<String>() {
            s.clone()
        } else {
            String::from("<non-string panic payload>")
        };
        let (file, line) = info
            .location()
            .map(|l| (l.file().to_string(), l.line()))
            .unwrap_or_default();
        if !IN_RUN.with(|r| r.get()) {
            eprintln!("HARNESS panic outside a run: {} at {}:{}", msg, file, line);
        }
        LAST_PANIC.with(|p| {
            let mut p = p.borrow_mut();
            // keep the first panic of a run (a panic during unwinding would abort anyway)
            if p.is_none() {
                *p = Some(PanicRec { msg, file, line });
            }
        });
    }));
}

/// Run `f`, which is *documented* to panic for some arguments; None when it did. The panic
/// record of the run is left as it was, so a later real panic is still attributed correctly.
pub fn expect_panic<T>(f: impl FnOnce() -> T) -> Option<T> {
    let saved = LAST_PANIC.with(|p| p.borrow_mut().take());
    let r = catch_unwind(AssertUnwindSafe(f)).ok();
    LAST_PANIC.with(|p| *p.borrow_mut() = saved);
    r
}

#[derive(Clone, Debug, Default)]
pub struct Outcome {
    pub digest: u64,
    pub violation: Option<Violation>,
    pub ops: u64,
    pub fired: u64,
    pub items: u64,
    pub errs: u64,
    pub ends: u64,
    pub events: u64,
    pub max_stack: usize,
    /// Largest single heap request made while the run was armed.
    pub max_alloc: usize,
    pub api: BTreeMap<&'static str, ApiStat>,
    pub probes: BTreeSet<&'static str>,
    pub err_kinds: BTreeSet<(&'static str, &'static str)>,
    pub log: Option<String>,
}

impl Outcome {
    pub fn class(&self) -> Option<&str> {
        self.violation.as_ref().map(|v| v.class.as_str())
    }
    /// Non-trivial by the evidence rule: made progress and either met a fault or
    /// drove some iterator to its end.
    pub fn nontrivial(&self) -> bool {
        self.items > 0 && (self.fired > 0 || self.ends > 0)
    }
}

/// Replace digit runs by 'N' so that panic messages that embed input-dependent numbers
/// fall into one class.
pub fn normalise_msg(m: &str) -> String {
    let mut out = String::with_capacity(m.len());
    let mut in_num = false;
    for c in m.chars() {
        if c.is_ascii_digit() {
            if !in_num {
                out.push('N');
                in_num = true;
            }
        } else {
            in_num = false;
            out.push(c);
        }
    }
    if out.len() > 160 {
        out.truncate(160);
    }
    out
}

/// Path of a source file relative to its package, so classes do not depend on where the
/// tree is checked out.
pub fn normalise_file(f: &str) -> String {
    if let Some(i) = f.find("/repo/") {
        return f[i + 6..].to_string();
    }
    if let Some(i) = f.find("/sim/src/") {
        return format!("sim{}", &f[i + 4..]);
    }
    f.to_string()
}

pub fn is_gimli_file(f: &str) -> bool {
    const G: &[&str] = &[
        "src/read/", "src/write/", "src/leb128.rs", "src/endianity.rs", "src/common.rs",
        "src/constants.rs", "src/arch.rs", "src/case_fold", "src/lib.rs",
    ];
    G.iter().any(|g| f.starts_with(g))
}

/// A panic located in the simulator's own source tree is our bug, never a gimli finding.
pub fn is_harness_file(f: &str) -> bool {
    f.starts_with("sim/") || (f.starts_with("src/") && !is_gimli_file(f))
}

/// Execute one case. With knob `stack_kib` the case runs on a thread of its own with that
/// much stack (the simulated caller's thread), otherwise on the worker's run thread.
pub fn execute(case: &Case, mon: Monitors, keep_log: bool) -> Outcome {
    let kib = case.knob("stack_kib", 0);
    if kib > 0 && !cfg!(miri) {
        return std::thread::scope(|s| {
            std::thread::Builder::new()
                .stack_size((kib as usize) << 10)
                .spawn_scoped(s, || execute_here(case, mon, keep_log))
                .expect("spawn run thread")
                .join()
                .unwrap_or_else(|_| crate::harness_error("small-stack run thread panicked"))
        });
    }
    execute_here(case, mon, keep_log)
}

fn execute_here(case: &Case, mon: Monitors, keep_log: bool) -> Outcome {
    let sim = SimState::new();
    sim.arm(FaultPlan::from_vec(&case.fault));
    let mut ctx = Ctx::new(case, sim.clone(), keep_log, mon);
    LAST_PANIC.with(|p| *p.borrow_mut() = None);
    IN_RUN.with(|r| r.set(true));
    crate::alloc::take_peak_single();
    crate::alloc::arm(true);
    let res = catch_unwind(AssertUnwindSafe(|| {
        crate::engines::dispatch(case, &mut ctx);
    }));
    crate::alloc::arm(false);
    let max_alloc = crate::alloc::take_peak_single();
    IN_RUN.with(|r| r.set(false));
    sim.clear_budget();
    sim.mute(false);
    let mut violation = None;
    if let Err(payload) = res {
        let api = crate::ctx::cur_api();
        let rec = LAST_PANIC.with(|p| p.borrow_mut().take()).unwrap_or_default();
        if let Some(a) = payload.downcast_ref::<SimAbort>() {
            let kind = match a {
                SimAbort::OpBudget => "hang",
                SimAbort::StackBudget => "stack",
            };
            violation = Some(Violation {
                class: format!("{}@{}", kind, api),
                detail: format!(
                    "{:?}: ops={} max_stack={} bytes",
                    a,
                    sim.ops.get(),
                    sim.sp_max_depth.get()
                ),
            });
        } else {
            let nf = normalise_file(&rec.file);
            violation = Some(Violation {
                class: format!(
                    "{}@{}:{}:{}",
                    if is_harness_file(&nf) { "HARNESS-panic" } else { "panic" },
                    api,
                    nf,
                    normalise_msg(&rec.msg)
                ),
                detail: format!("{} at {}:{}", rec.msg, rec.file, rec.line),
            });
        }
    }
    if violation.is_none() {
        violation = ctx.violation.take();
    }
    Outcome {
        digest: ctx.rec.digest(),
        violation,
        ops: sim.ops.get(),
        fired: sim.fired.get(),
        items: ctx.items,
        errs: ctx.errs,
        ends: ctx.ends,
        events: ctx.rec.events,
        max_stack: sim.sp_max_depth.get(),
        max_alloc,
        api: std::mem::take(&mut ctx.api),
        probes: std::mem::take(&mut ctx.probes),
        err_kinds: std::mem::take(&mut ctx.err_kinds),
        log: ctx.rec.log.take(),
    }
}
