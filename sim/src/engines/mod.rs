//! Engine registry: which engine serves which property, how many runs per tier, how a
//! run index becomes a Case, and how a Case is executed.

use crate::case::Case;
use crate::ctx::{Ctx, Monitors};

pub mod e1;

#[derive(Clone, Copy, Debug, PartialEq, Eq)]
pub enum Tier {
    Quick,
    Thorough,
}

impl Tier {
    pub fn name(&self) -> &'static str {
        match self {
            Tier::Quick => "quick",
            Tier::Thorough => "thorough",
        }
    }
    pub fn parse(s: &str) -> Option<Tier> {
        match s {
            "quick" => Some(Tier::Quick),
            "thorough" => Some(Tier::Thorough),
            _ => None,
        }
    }
}

/// A batch: `runs` indices of one engine under one build profile.
#[derive(Clone, Debug)]
pub struct Batch {
    pub engine: &'static str,
    pub profile: &'static str,
    pub runs: u64,
}

pub struct PropSpec {
    pub id: &'static str,
    pub level: &'static str,
    pub batches: Vec<Batch>,
}

pub fn monitors_for(prop: &str) -> Monitors {
    match prop {
        "C01" => Monitors { c01: true, ..Default::default() },
        "C04" => Monitors { c04: true, ..Default::default() },
        "C08" => Monitors { c08: true, ..Default::default() },
        _ => Monitors::default(),
    }
}

pub fn spec(prop: &str, tier: Tier) -> Option<PropSpec> {
    let q = tier == Tier::Quick;
    Some(match prop {
        "C01" => PropSpec {
            id: "C01",
            level: "exploration",
            batches: vec![
                Batch { engine: "e1", profile: "debug", runs: if q { 120_000 } else { 6_000_000 } },
                Batch { engine: "e1", profile: "release", runs: if q { 240_000 } else { 24_000_000 } },
            ],
        },
        "C04" => PropSpec {
            id: "C04",
            level: "exploration",
            batches: vec![
                Batch { engine: "e1", profile: "debug", runs: if q { 60_000 } else { 2_000_000 } },
                Batch { engine: "e1", profile: "release", runs: if q { 140_000 } else { 10_000_000 } },
            ],
        },
        "C08" => PropSpec {
            id: "C08",
            level: "exploration",
            batches: vec![
                Batch { engine: "e1", profile: "debug", runs: if q { 60_000 } else { 2_000_000 } },
                Batch { engine: "e1", profile: "release", runs: if q { 140_000 } else { 10_000_000 } },
            ],
        },
        _ => return None,
    })
}

/// Does a violation class belong to the property being checked? A C04/C08 monitor run
/// also sees crashes that are C01's business; those are not reported under C04/C08.
pub fn class_belongs(prop: &str, class: &str) -> bool {
    if class.starts_with("HARNESS-") {
        return true;
    }
    match prop {
        "C04" => class.starts_with("c04_"),
        "C08" => class.starts_with("c08_"),
        "C01" => !class.starts_with("c04_") && !class.starts_with("c08_"),
        _ => true,
    }
}

/// Deterministic: (engine, property, tier, master seed, index) -> Case.
pub fn gen_case(engine: &str, prop: &str, tier: Tier, master: u64, i: u64) -> Case {
    match engine {
        "e1" => e1::gen_case(prop, tier, master, i),
        _ => panic!("unknown engine {}", engine),
    }
}

/// Execute the engine-specific body of a case.
pub fn dispatch(case: &Case, ctx: &mut Ctx<'_>) {
    match case.engine.as_str() {
        "e1" => e1::run(case, ctx),
        other => panic!("unknown engine {}", other),
    }
}
