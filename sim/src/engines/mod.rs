//! Engine registry: which engine serves which property, how many runs per tier, how a
//! run index becomes a Case, and how a Case is executed.

use crate::case::Case;
use crate::ctx::{Ctx, Monitors};

pub mod e1;
pub mod e2;
pub mod e3;
pub mod e4;
pub mod e5;
pub mod e6;

#[derive(Clone, Copy, Debug, PartialEq, Eq)]
pub enum Tier {
    Quick,
    Thorough,
}

impl Tier {
    pub fn name(&self) -> &'static str {
        match self {
            Tier::Quick => "quick",
            Tier::Thorough => "thorough",
        }
    }
    pub fn parse(s: &str) -> Option<Tier> {
        match s {
            "quick" => Some(Tier::Quick),
            "thorough" => Some(Tier::Thorough),
            _ => None,
        }
    }
}

/// A batch: `runs` indices of one engine under one build profile.
#[derive(Clone, Debug)]
pub struct Batch {
    pub engine: &'static str,
    pub profile: &'static str,
    pub runs: u64,
}

pub struct PropSpec {
    pub id: &'static str,
    pub level: &'static str,
    pub batches: Vec<Batch>,
    pub exhaustive: bool,
    pub rule: &'static str,
}

pub const RULE_E1: &str = "one evaluation = one simulated run (a fault-free twin or a faulted run) of one workload family; a run is non-trivial when gimli yielded >=1 item AND (>=1 injected fault fired OR >=1 iterator was driven to its end marker); distinct = distinct FNV-1a digests of the full canonical event stream among non-trivial runs, counted by the machinery";

pub fn monitors_for(prop: &str) -> Monitors {
    match prop {
        "C01" => Monitors { c01: true, ..Default::default() },
        "C04" => Monitors { c04: true, ..Default::default() },
        "C08" => Monitors { c08: true, ..Default::default() },
        _ => Monitors::default(),
    }
}

pub fn spec(prop: &str, tier: Tier) -> Option<PropSpec> {
    let q = tier == Tier::Quick;
    Some(match prop {
        "C01" => PropSpec {
            id: "C01",
            level: "exploration",
            batches: vec![
                Batch { engine: "e1", profile: "debug", runs: if q { 1_000_000 } else { 8_000_000 } },
                Batch { engine: "e1", profile: "release", runs: if q { 2_000_000 } else { 30_000_000 } },
            ],
            exhaustive: false,
            rule: RULE_E1,
        },
        "C04" => PropSpec {
            id: "C04",
            level: "exploration",
            batches: vec![
                Batch { engine: "e1", profile: "debug", runs: if q { 400_000 } else { 3_000_000 } },
                Batch { engine: "e1", profile: "release", runs: if q { 900_000 } else { 12_000_000 } },
            ],
            exhaustive: false,
            rule: RULE_E1,
        },
        "C08" => PropSpec {
            id: "C08",
            level: "exploration",
            batches: vec![
                Batch { engine: "e1", profile: "debug", runs: if q { 400_000 } else { 3_000_000 } },
                Batch { engine: "e1", profile: "release", runs: if q { 900_000 } else { 12_000_000 } },
            ],
            exhaustive: false,
            rule: RULE_E1,
        },
        "C06" => PropSpec {
            id: "C06",
            level: "fault_enumeration",
            batches: vec![
                Batch { engine: "e4", profile: "debug", runs: if q { 30_000 } else { 300_000 } },
                Batch { engine: "e4", profile: "release", runs: if q { 150_000 } else { 3_000_000 } },
            ],
            exhaustive: false,
            rule: "one evaluation = one generated CIE/FDE program evaluated on unbounded storage and on the whole capacity ladder rows {1,2,3,4,5} x rules {1,2,4,191,192,193} (array and boxed storages), i.e. 31 executions of the real unwind code; the ladder is enumerated exhaustively per program, programs are seeded; non-trivial = the FDE parsed AND every ladder comparison ran to its end; distinct = distinct event-stream digests",
        },
        "C07" => PropSpec {
            id: "C07",
            level: "exploration",
            batches: vec![
                Batch { engine: "e3", profile: "debug", runs: e3::exhaustive_count(tier) + e3::grid_count() + if q { 300_000 } else { 4_000_000 } },
                Batch { engine: "e3", profile: "release", runs: e3::exhaustive_count(tier) + e3::grid_count() + if q { 1_200_000 } else { 20_000_000 } },
            ],
            exhaustive: false,
            rule: "one evaluation = one expression program (AST encoded by the harness's own encoder) decoded and evaluated by the real evaluator against the seeded World and compared with the reference model (Requires* sequence with every parameter, result pieces, value result, error kind); first block: every program of length <= 2 (quick) / 3 (thorough) over a 38-symbol alphabet after three boundary operands, each under every iteration limit 0..K+1; then seeded valid/random programs with loops, pieces, nested calls, typed values, wrong-typed answers, storage budgets; non-trivial = >=1 operation decoded AND (an injected fault fired OR the comparison ran to its end); distinct = distinct event-stream digests",
        },
        "C10" => PropSpec {
            id: "C10",
            level: "exploration",
            batches: vec![
                Batch { engine: "e2", profile: "debug", runs: e2::exhaustive_count(tier) + if q { 100_000 } else { 1_000_000 } },
                Batch { engine: "e2", profile: "release", runs: e2::exhaustive_count(tier) + if q { 200_000 } else { 4_000_000 } },
            ],
            exhaustive: false,
            rule: "one evaluation = one history of Reader operations applied in lock-step to EndianSlice, EndianRcSlice, EndianArcSlice, EndianReader<CountingBuf>, RelocateReader<identity> and the safe cursor model (first block: every history up to length 3 (quick) / 4 (thorough) over a 20-operation alphabet on a 6-byte buffer, exhaustively), or one whole-section parse repeated under all six reader kinds; non-trivial = >=1 operation/parse item AND the history ran to its end; distinct = distinct event-stream digests",
        },
        "C20" => PropSpec {
            id: "C20",
            level: "exploration",
            batches: vec![
                Batch { engine: "e6", profile: "debug", runs: e6::uctx_exhaustive(tier).0 + if q { 400_000 } else { 3_000_000 } },
                Batch { engine: "e6", profile: "release", runs: e6::uctx_exhaustive(tier).0 + if q { 900_000 } else { 12_000_000 } },
            ],
            exhaustive: false,
            rule: "one evaluation = one history executed on long-lived state with every step mirrored on fresh state under the same step-relative fault plan; the first block enumerates exhaustively all fault-free UnwindContext histories up to length 2 (quick) / 3 (thorough) over a fixed 16-FDE x 5-step-kind alphabet, the rest are seeded random histories over six families (unwind context, entry buffer, tree re-root, clones, sequence resume, abbreviation cache); non-trivial = the reusable object was exercised (>=1 item) AND (a step failed by an injected fault OR the history ran to its end); distinct = distinct event-stream digests",
        },
        "C17" => PropSpec {
            id: "C17",
            level: "fault_enumeration",
            batches: vec![
                Batch { engine: "e5", profile: "debug", runs: e5::total_indices() },
                Batch { engine: "e5", profile: "release", runs: e5::total_indices() },
            ],
            exhaustive: true,
            rule: "exhaustive enumeration of (loader entry point) x (loader failure index k from none to one past the last call); one evaluation = one such run; non-trivial = the loader was called and either failed by injection or every loaded field was compared against its marker; distinct = distinct event-stream digests",
        },
        _ => return None,
    })
}

/// Does a violation class belong to the property being checked? A C04/C08 monitor run
/// also sees crashes that are C01's business; those are not reported under C04/C08.
pub fn class_belongs(prop: &str, class: &str) -> bool {
    if class.starts_with("HARNESS-") {
        return true;
    }
    match prop {
        "C04" => class.starts_with("c04_"),
        "C08" => class.starts_with("c08_"),
        "C01" => !class.starts_with("c04_") && !class.starts_with("c08_"),
        _ => true,
    }
}

/// Deterministic: (engine, property, tier, master seed, index) -> Case.
pub fn gen_case(engine: &str, prop: &str, tier: Tier, master: u64, i: u64) -> Case {
    match engine {
        "e1" => e1::gen_case(prop, tier, master, i),
        "e2" => e2::gen_case(tier, master, i),
        "e3" => e3::gen_case(tier, master, i),
        "e4" => e4::gen_case(tier, master, i),
        "e5" => e5::gen_case(i),
        "e6" => e6::gen_case(tier, master, i),
        _ => panic!("unknown engine {}", engine),
    }
}

/// Execute the engine-specific body of a case.
pub fn dispatch(case: &Case, ctx: &mut Ctx<'_>) {
    match case.engine.as_str() {
        "e1" => e1::run(case, ctx),
        "e2" => e2::run(case, ctx),
        "e3" => e3::run(case, ctx),
        "e4" => e4::run(case, ctx),
        "e5" => e5::run(case, ctx),
        "e6" => e6::run(case, ctx),
        other => panic!("unknown engine {}", other),
    }
}
