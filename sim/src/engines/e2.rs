//! E2 `readersim` (C10): readers are faithful zero-copy views; all reader kinds behave
//! identically.
//!  * family "lockstep": histories of Reader operations applied in lock-step to a pool
//!    of handles that exists simultaneously as EndianSlice, EndianRcSlice, EndianArcSlice,
//!    EndianReader<CountingBuf>, RelocateReader<_, Identity> and as an independent safe
//!    cursor model (which implements `Reader` itself).
//!  * family "parse": whole-section parses (every E1 driver family) repeated under each
//!    reader kind; the canonical event streams must be identical.

use super::Tier;
use crate::case::Case;
use crate::ctx::{err_name, Ctx};
use crate::drv::endian_of;
use crate::ev;
use crate::readers::{CountingBuf, Identity, ModelReader, CB_BUFFERS_LIVE, CB_LIVE};
use crate::rng::{mix, tag, Rng};
use gimli::{
    EndianArcSlice, EndianRcSlice, EndianReader, EndianSlice, Format, Reader, RelocateReader,
    RunTimeEndian,
};
use std::borrow::Cow;
use std::rc::Rc;
use std::sync::Arc;

pub const N_OPS: i64 = 43;

/// Reduced alphabet for the exhaustive block (op, arg).
const SMALL_ALPHABET: &[(i64, i64)] = &[
    (0, 0),   // read_u8
    (2, 0),   // read_u16
    (4, 0),   // read_u32
    (12, 0),  // read_uleb128
    (23, 1),  // skip 1
    (23, 3),  // skip 3
    (23, 7),  // skip 7 (out of range)
    (24, 2),  // split 2
    (24, 9),  // split 9 (out of range)
    (25, 1),  // truncate 1
    (25, 8),  // truncate 8 (out of range)
    (26, 0),  // empty
    (27, 0),  // find 0
    (28, 0),  // read_null_terminated_slice
    (29, 2),  // read_slice 2
    (33, 0),  // offset ids
    (35, 0),  // clone
    (36, 0),  // drop
    (31, 0),  // to_string
    (18, 4),  // read_address(4)
];

pub fn exhaustive_count(tier: Tier) -> u64 {
    let a = SMALL_ALPHABET.len() as u64;
    match tier {
        Tier::Quick => a + a * a + a * a * a,
        Tier::Thorough => a + a * a + a * a * a + a * a * a * a,
    }
}

pub fn gen_case(tier: Tier, master: u64, i: u64) -> Case {
    let nex = exhaustive_count(tier);
    if i < nex {
        let a = SMALL_ALPHABET.len() as u64;
        let mut c = Case::new("e2", "lockstep");
        c.put("buf", vec![0x81, 0x01, 0x00, 0x41, 0xff, 0x7f]);
        c.set("be", (i % 2) as i64);
        let (len, mut k) = if i < a {
            (1, i)
        } else if i < a + a * a {
            (2, i - a)
        } else if i < a + a * a + a * a * a {
            (3, i - a - a * a)
        } else {
            (4, i - a - a * a - a * a * a)
        };
        for pos in 0..len {
            let d = (k % a) as usize;
            k /= a;
            let (op, arg) = SMALL_ALPHABET[d];
            // handle selector: later steps prefer the newest handle
            c.steps.push(vec![op, if pos % 2 == 1 { 1 } else { 0 }, arg, 0]);
        }
        c.note = "exhaustive".into();
        return c;
    }
    let mut rng = Rng::new(mix(master, tag("e2"), i));
    if rng.chance(1, 8) {
        // an identity-relocating reader over a reader that fails: same results as the model
        // while nothing fails, and a failed operation consumes nothing
        let mut c = Case::new("e2", "relocfault");
        c.set("be", rng.bool() as i64);
        let n = 1 + rng.usize(48);
        let mut buf = rng.bytes(n);
        for b in buf.iter_mut() {
            if rng.chance(1, 5) {
                *b = 0;
            }
        }
        c.put("buf", buf);
        for _ in 0..8 + rng.usize(40) {
            let op = *rng.pick(&[0i64, 2, 4, 6, 11, 23, 23, 24, 24, 24, 25, 27, 28, 29, 35]);
            c.steps.push(vec![op, rng.below(8) as i64, rng.below(n as u64 + 3) as i64, rng.below(256) as i64]);
        }
        c.fault = vec![if rng.bool() { 1 } else { 2 }, rng.below(60) as i64, rng.chance(1, 3) as i64];
        c.note = "relocfault".into();
        return c;
    }
    if rng.chance(3, 5) {
        let mut c = Case::new("e2", "lockstep");
        c.set("be", rng.bool() as i64);
        let n = rng.usize(65);
        let mut buf = rng.bytes(n);
        for b in buf.iter_mut() {
            match rng.below(6) {
                0 => *b = 0,
                1 => *b &= 0x7f,
                2 => *b |= 0x80,
                3 => *b = b'a' + (*b % 26),
                _ => {}
            }
        }
        c.put("buf", buf);
        let steps = 16 + rng.usize(185);
        for _ in 0..steps {
            let op = rng.below(N_OPS as u64) as i64;
            let a = if rng.chance(1, 4) { rng.interesting() as i64 } else { rng.below(n as u64 + 3) as i64 };
            c.steps.push(vec![op, rng.below(64) as i64, a, rng.below(256) as i64]);
        }
        c.note = "random".into();
        c
    } else {
        // whole-section parse under every reader kind: reuse E1's generators, fault-free
        let mut c = super::e1::gen_case("C10", tier, master ^ 0xe2b, 1_000_000 + i);
        c.engine = "e2".into();
        c.knobs.insert("family_e1".into(), 0);
        c.note = format!("parse:{}:{}", c.family, c.note);
        c.steps = vec![vec![family_code(&c.family)]];
        c.family = "parse".into();
        c.fault = vec![0];
        c
    }
}

const E1_FAMILIES: &[&str] = &["aranges", "addr", "str", "pub", "line", "macros", "lists", "info", "cfi", "op", "names", "index", "convert"];

fn family_code(f: &str) -> i64 {
    E1_FAMILIES.iter().position(|x| *x == f).unwrap_or(0) as i64
}

// ---------------------------------------------------------------------------------------
// lock-step

/// The inherent sub-view constructors (`range`, `range_from`, `range_to`), which are documented
/// to panic when the range is out of bounds: None = panicked. Reversed ranges are never asked
/// for. RelocateReader has no such methods; it takes the same sub-view through Reader
/// operations and an error there counts as the refusal.
pub trait Ranged: Sized {
    fn ranged(&self, kind: i64, a: usize, b: usize) -> Option<Self>;
}

impl<'i> Ranged for EndianSlice<'i, RunTimeEndian> {
    fn ranged(&self, kind: i64, a: usize, b: usize) -> Option<Self> {
        crate::engine::expect_panic(|| match kind {
            0 => self.range(a..b),
            1 => self.range_from(a..),
            _ => self.range_to(..b),
        })
    }
}

impl<T: gimli::CloneStableDeref<Target = [u8]> + std::fmt::Debug> Ranged for EndianReader<RunTimeEndian, T> {
    fn ranged(&self, kind: i64, a: usize, b: usize) -> Option<Self> {
        crate::engine::expect_panic(|| match kind {
            0 => self.range(a..b),
            1 => self.range_from(a..),
            _ => self.range_to(..b),
        })
    }
}

impl<'i> Ranged for RelocateReader<EndianSlice<'i, RunTimeEndian>, Identity> {
    fn ranged(&self, kind: i64, a: usize, b: usize) -> Option<Self> {
        let mut r = self.clone();
        match kind {
            0 => {
                r.skip(a).ok()?;
                r.truncate(b - a).ok()?;
            }
            1 => r.skip(a).ok()?,
            _ => r.truncate(b).ok()?,
        }
        Some(r)
    }
}

impl Ranged for ModelReader {
    fn ranged(&self, kind: i64, a: usize, b: usize) -> Option<Self> {
        let (lo, hi) = match kind {
            0 => (a, b),
            1 => (a, self.len),
            _ => (0, b),
        };
        if lo > hi || hi > self.len {
            return None;
        }
        Some(ModelReader { buf: self.buf.clone(), start: self.start + lo, len: hi - lo, endian: self.endian })
    }
}

struct Pool<R> {
    root: R,
    h: Vec<Option<R>>,
}

/// Canonical observation of a handle after a step.
fn observe<R: Reader<Offset = usize>>(r: &R, root: &R, emptied: bool, ptr_off: &dyn Fn(&R, &R) -> Option<isize>) -> String {
    let sl = r.to_slice();
    let (hex, borrowed) = match &sl {
        Ok(Cow::Borrowed(b)) => (crate::case::hex(b), true),
        Ok(Cow::Owned(b)) => (crate::case::hex(b), false),
        Err(_) => ("<err>".into(), false),
    };
    let pos = if emptied { None } else { ptr_off(r, root) };
    let idpos = if emptied { None } else { root.lookup_offset_id(r.offset_id()) };
    format!("len={} empty={} bytes={} borrowed={} ptr_off={:?} id_off={:?}", r.len(), r.is_empty(), hex, borrowed, pos, idpos)
}

fn res<T: std::fmt::Debug>(r: gimli::Result<T>) -> String {
    match r {
        Ok(v) => format!("Ok({:?})", v),
        Err(e) => format!("Err({})", err_name(&e)),
    }
}

/// Apply one operation to handle `hi` of a pool; returns the canonical outcome and
/// possibly a new handle.
fn apply<R: Reader<Offset = usize> + Ranged>(pool: &mut Pool<R>, hi: usize, other: usize, op: &[i64], emptied: &[bool], other_contains: bool) -> (String, Option<R>) {
    let a = op[2] as u64;
    let b = op[3] as u64;
    let other_id = pool.h.get(other).and_then(|x| x.as_ref()).map(|x| x.offset_id());
    let other_r = if other_contains && other != hi { pool.h.get(other).and_then(|x| x.clone()) } else { None };
    let root = pool.root.clone();
    let r = match pool.h[hi].as_mut() {
        Some(r) => r,
        None => return ("dead".into(), None),
    };
    let mut new = None;
    let s = match op[0] {
        0 => res(r.read_u8()),
        1 => res(r.read_i8()),
        2 => res(r.read_u16()),
        3 => res(r.read_i16()),
        4 => res(r.read_u32()),
        5 => res(r.read_i32()),
        6 => res(r.read_u64()),
        7 => res(r.read_i64()),
        8 => res(r.read_f32().map(|f| f.to_bits())),
        9 => res(r.read_f64().map(|f| f.to_bits())),
        10 => res(r.read_u128()),
        11 => res(r.read_uint(1 + (a % 8) as usize)),
        12 => res(r.read_uleb128()),
        13 => res(r.read_sleb128()),
        14 => res(r.read_uleb128_u32()),
        15 => res(r.read_uleb128_u16()),
        16 => res(r.skip_leb128()),
        17 => res(r.read_initial_length()),
        18 => res(r.read_address((a % 10) as u8)),
        19 => res(r.read_address_size()),
        20 => res(r.read_word(if b % 2 == 0 { Format::Dwarf32 } else { Format::Dwarf64 })),
        21 => {
            let f = if b % 2 == 0 { Format::Dwarf32 } else { Format::Dwarf64 };
            if a % 2 == 0 {
                res(r.read_offset(f))
            } else {
                res(r.read_length(f))
            }
        }
        22 => res(r.read_sized_offset((a % 10) as u8)),
        23 => res(r.skip(a as usize)),
        24 => match r.split(a as usize) {
            Ok(n) => {
                new = Some(n);
                "Ok(split)".into()
            }
            Err(e) => format!("Err({})", err_name(&e)),
        },
        25 => res(r.truncate(a as usize)),
        26 => {
            r.empty();
            "emptied".into()
        }
        27 => res(r.find(b as u8)),
        28 => match r.read_null_terminated_slice() {
            Ok(n) => {
                new = Some(n);
                "Ok(cstr)".into()
            }
            Err(e) => format!("Err({})", err_name(&e)),
        },
        29 => {
            let mut buf = vec![0u8; (a % 70) as usize];
            let x = r.read_slice(&mut buf);
            format!("{} {}", res(x), crate::case::hex(&buf))
        }
        30 => res(r.to_slice().map(|c| c.to_vec())),
        31 => res(r.to_string().map(|c| c.to_string())),
        32 => res(r.to_string_lossy().map(|c| c.to_string())),
        33 => {
            // offset identifiers map back to the position they came from
            if emptied[hi] {
                "skip(emptied)".into()
            } else {
                let me = root.lookup_offset_id(r.offset_id());
                let cross = match other_id {
                    Some(id) if !emptied.get(other).copied().unwrap_or(true) => Some(r.lookup_offset_id(id)),
                    _ => None,
                };
                format!("id root->{:?} other_in_me->{:?}", me, cross)
            }
        }
        34 => {
            if emptied[hi] {
                "skip(emptied)".into()
            } else {
                // relative to the whole section, and relative to another live view that the
                // model says contains this one (the documented precondition)
                match &other_r {
                    Some(o) => format!("offset_from(root)={} offset_from(other)={}", r.offset_from(&root), r.offset_from(o)),
                    None => format!("offset_from(root)={}", r.offset_from(&root)),
                }
            }
        }
        35 => {
            new = Some(r.clone());
            "cloned".into()
        }
        36 => "drop".into(),
        37 => format!("len={} is_empty={}", r.len(), r.is_empty()),
        38 => res(r.read_u8_array::<[u8; 3]>()),
        40 | 41 | 42 => {
            // sub-views through the inherent constructors, in and out of bounds
            let span = r.len() + 3;
            let (x, y) = ((a % (span as u64 + 1)) as usize, (b % (span as u64 + 1)) as usize);
            let (lo, hi) = (x.min(y), x.max(y));
            match r.ranged(op[0] - 40, lo, hi) {
                Some(n) => {
                    new = Some(n);
                    "Ok(subview)".into()
                }
                None => "refused".into(),
            }
        }
        _ => res(r.read_u8().and_then(|_| r.read_u16())),
    };
    (s, new)
}

fn run_lockstep(case: &Case, ctx: &mut Ctx<'_>) {
    let bytes = case.sec("buf");
    let endian = endian_of(case);
    let live0 = CB_LIVE.with(|c| c.get());
    let bufs0 = CB_BUFFERS_LIVE.with(|c| c.get());
    {
        let mut p_s: Pool<EndianSlice<RunTimeEndian>> = Pool { root: EndianSlice::new(bytes, endian), h: vec![] };
        let mut p_rc: Pool<EndianRcSlice<RunTimeEndian>> = Pool { root: EndianRcSlice::new(Rc::from(bytes), endian), h: vec![] };
        let mut p_arc: Pool<EndianArcSlice<RunTimeEndian>> = Pool { root: EndianArcSlice::new(Arc::from(bytes), endian), h: vec![] };
        let mut p_cb: Pool<EndianReader<RunTimeEndian, CountingBuf>> = Pool { root: EndianReader::new(CountingBuf::new(bytes), endian), h: vec![] };
        let mut p_rl: Pool<RelocateReader<EndianSlice<RunTimeEndian>, Identity>> =
            Pool { root: RelocateReader::new(EndianSlice::new(bytes, endian), Identity), h: vec![] };
        let mut p_m: Pool<ModelReader> = Pool { root: ModelReader::new(bytes, endian), h: vec![] };
        p_s.h.push(Some(p_s.root));
        p_rc.h.push(Some(p_rc.root.clone()));
        p_arc.h.push(Some(p_arc.root.clone()));
        p_cb.h.push(Some(p_cb.root.clone()));
        p_rl.h.push(Some(p_rl.root.clone()));
        p_m.h.push(Some(p_m.root.clone()));
        let mut emptied = vec![false];
        ctx.item();
        let po_s = |r: &EndianSlice<RunTimeEndian>, root: &EndianSlice<RunTimeEndian>| Some(r.slice().as_ptr() as isize - root.slice().as_ptr() as isize);
        let po_rc = |r: &EndianRcSlice<RunTimeEndian>, root: &EndianRcSlice<RunTimeEndian>| Some(r.bytes().as_ptr() as isize - root.bytes().as_ptr() as isize);
        let po_arc = |r: &EndianArcSlice<RunTimeEndian>, root: &EndianArcSlice<RunTimeEndian>| Some(r.bytes().as_ptr() as isize - root.bytes().as_ptr() as isize);
        let po_cb = |r: &EndianReader<RunTimeEndian, CountingBuf>, root: &EndianReader<RunTimeEndian, CountingBuf>| Some(r.bytes().as_ptr() as isize - root.bytes().as_ptr() as isize);
        let po_rl = |r: &RelocateReader<EndianSlice<RunTimeEndian>, Identity>, root: &RelocateReader<EndianSlice<RunTimeEndian>, Identity>| {
            Some(r.inner().slice().as_ptr() as isize - root.inner().slice().as_ptr() as isize)
        };
        let po_m = |r: &ModelReader, root: &ModelReader| Some(r.start as isize - root.start as isize);
        for (si, op) in case.steps.iter().enumerate() {
            let nh = emptied.len();
            // pick a live handle deterministically
            let mut hi = (op[1] as usize) % nh;
            if op[1] == 1 {
                hi = nh - 1;
            }
            let mut tries = 0;
            while p_m.h[hi].is_none() && tries < nh {
                hi = (hi + 1) % nh;
                tries += 1;
            }
            if p_m.h[hi].is_none() {
                break;
            }
            let other = (op[3] as usize) % nh;
            ctx.enter("reader.op");
            let oc = match (&p_m.h[hi], p_m.h.get(other).and_then(|x| x.as_ref())) {
                (Some(me), Some(o)) => !emptied[hi] && !emptied[other] && me.start >= o.start && me.start + me.len <= o.start + o.len,
                _ => false,
            };
            let (o_m, n_m) = apply(&mut p_m, hi, other, op, &emptied, oc);
            let (o_s, n_s) = apply(&mut p_s, hi, other, op, &emptied, oc);
            let (o_rc, n_rc) = apply(&mut p_rc, hi, other, op, &emptied, oc);
            let (o_arc, n_arc) = apply(&mut p_arc, hi, other, op, &emptied, oc);
            let (o_cb, n_cb) = apply(&mut p_cb, hi, other, op, &emptied, oc);
            let (o_rl, n_rl) = apply(&mut p_rl, hi, other, op, &emptied, oc);
            ev!(ctx, "step {} op={} h={} -> {}", si, op[0], hi, o_m);
            for (name, o) in [("EndianSlice", &o_s), ("EndianRcSlice", &o_rc), ("EndianArcSlice", &o_arc), ("EndianReader<CountingBuf>", &o_cb), ("RelocateReader", &o_rl)] {
                if *o != o_m {
                    ctx.violate("c10_result", format!("step {} op {} on {}: `{}` but the cursor model says `{}`", si, op[0], name, o, o_m));
                    return;
                }
            }
            // (EndianSlice::empty used to lose its position; since the fix recorded in
            // known_findings.json every reader keeps it, so emptied handles are observed too)
            if op[0] == 36 {
                p_m.h[hi] = None;
                p_s.h[hi] = None;
                p_rc.h[hi] = None;
                p_arc.h[hi] = None;
                p_cb.h[hi] = None;
                p_rl.h[hi] = None;
            }
            if n_m.is_some() {
                if n_s.is_none() || n_rc.is_none() || n_arc.is_none() || n_cb.is_none() || n_rl.is_none() {
                    ctx.violate("c10_result", format!("step {}: not every reader produced a new handle", si));
                    return;
                }
                p_m.h.push(n_m);
                p_s.h.push(n_s);
                p_rc.h.push(n_rc);
                p_arc.h.push(n_arc);
                p_cb.h.push(n_cb);
                p_rl.h.push(n_rl);
                emptied.push(emptied[hi]);
            }
            // observe every live handle: window, zero-copy pointer identity, ids
            for k in 0..emptied.len() {
                let m = match &p_m.h[k] {
                    Some(m) => m,
                    None => continue,
                };
                let e = emptied[k];
                let om = observe(m, &p_m.root, e, &po_m);
                let checks: [(&str, String); 5] = [
                    ("EndianSlice", observe(p_s.h[k].as_ref().unwrap(), &p_s.root, e, &po_s)),
                    ("EndianRcSlice", observe(p_rc.h[k].as_ref().unwrap(), &p_rc.root, e, &po_rc)),
                    ("EndianArcSlice", observe(p_arc.h[k].as_ref().unwrap(), &p_arc.root, e, &po_arc)),
                    ("EndianReader<CountingBuf>", observe(p_cb.h[k].as_ref().unwrap(), &p_cb.root, e, &po_cb)),
                    ("RelocateReader", observe(p_rl.h[k].as_ref().unwrap(), &p_rl.root, e, &po_rl)),
                ];
                for (name, o) in checks.iter() {
                    if *o != om {
                        ctx.violate("c10_view", format!("after step {} handle {} as {}: `{}` but the model is `{}`", si, k, name, o, om));
                        return;
                    }
                }
            }
            // CountingBuf accounting: live handles (+ the root) hold exactly that many buffers
            let live = CB_LIVE.with(|c| c.get()) - live0;
            let want = p_cb.h.iter().filter(|x| x.is_some()).count() as i64 + 1;
            if live != want {
                ctx.violate("c10_ownership", format!("after step {}: {} CountingBuf handles alive, {} readers alive", si, live, want));
                return;
            }
        }
        // drop everything in a history-chosen order
        let order = case.knob("be", 0) as usize + case.steps.len();
        let n = p_cb.h.len();
        for k in 0..n {
            let idx = (k * 7 + order) % n;
            p_cb.h[idx] = None;
            p_rc.h[idx] = None;
            p_arc.h[idx] = None;
            if CB_BUFFERS_LIVE.with(|c| c.get()) - bufs0 != 1 {
                ctx.violate("c10_ownership", "shared buffer freed while the root reader is still alive".into());
                return;
            }
        }
        for k in 0..n {
            p_cb.h[k] = None;
        }
    }
    if CB_LIVE.with(|c| c.get()) != live0 || CB_BUFFERS_LIVE.with(|c| c.get()) != bufs0 {
        ctx.violate(
            "c10_ownership",
            format!(
                "after dropping every reader: {} handles and {} buffers still alive",
                CB_LIVE.with(|c| c.get()) - live0,
                CB_BUFFERS_LIVE.with(|c| c.get()) - bufs0
            ),
        );
    }
    ctx.end();
}

/// RelocateReader<FaultReader<EndianSlice>, Identity> against the cursor model under injected
/// failures of the wrapped reader: results equal the model's while nothing fails; an operation
/// that fails (injected Io / Eof, or a genuine out-of-range argument) leaves the view where it
/// was, as it does for every other reader kind.
fn run_relocfault(case: &Case, ctx: &mut Ctx<'_>) {
    use crate::fault::FaultReader;
    type RF<'a> = RelocateReader<FaultReader<EndianSlice<'a, RunTimeEndian>>, Identity>;
    let bytes = case.sec("buf");
    let endian = endian_of(case);
    let base = bytes.as_ptr() as usize;
    let root: RF = RelocateReader::new(FaultReader::new(EndianSlice::new(bytes, endian), ctx.sim.clone()), Identity);
    let mut hs: Vec<(RF, ModelReader)> = vec![(root, ModelReader::new(bytes, endian))];
    ctx.item();
    let view = |r: &RF| -> (usize, usize) { (r.inner().inner.slice().as_ptr() as usize - base, r.len()) };
    for (si, op) in case.steps.iter().enumerate() {
        let hi = (op[1] as usize) % hs.len();
        let (a, b) = (op[2] as usize, op[3] as u64);
        ctx.enter("reader.op");
        let fired0 = ctx.sim.fired.get();
        let before = view(&hs[hi].0);
        let (r, m) = {
            let h = &mut hs[hi];
            (&mut h.0, &mut h.1)
        };
        let mut m2 = m.clone();
        let mut new: Option<(RF, ModelReader)> = None;
        // (real outcome, model outcome) as strings; a new handle when the operation makes one
        let (o_r, o_m): (String, String) = match op[0] {
            0 => (res(r.read_u8()), res(m2.read_u8())),
            2 => (res(r.read_u16()), res(m2.read_u16())),
            4 => (res(r.read_u32()), res(m2.read_u32())),
            6 => (res(r.read_u64()), res(m2.read_u64())),
            11 => (res(r.read_uint(1 + a % 8)), res(m2.read_uint(1 + a % 8))),
            23 => (res(r.skip(a)), res(m2.skip(a))),
            24 => match (r.split(a), m2.split(a)) {
                (Ok(x), Ok(y)) => {
                    new = Some((x, y));
                    ("Ok(split)".into(), "Ok(split)".into())
                }
                (x, y) => (res(x.map(|_| ())), res(y.map(|_| ()))),
            },
            25 => (res(r.truncate(a)), res(m2.truncate(a))),
            27 => (res(r.find(b as u8)), res(m2.find(b as u8))),
            28 => match (r.read_null_terminated_slice(), m2.read_null_terminated_slice()) {
                (Ok(x), Ok(y)) => {
                    new = Some((x, y));
                    ("Ok(cstr)".into(), "Ok(cstr)".into())
                }
                (x, y) => (res(x.map(|_| ())), res(y.map(|_| ()))),
            },
            29 => {
                let mut b1 = vec![0u8; a % 20];
                let mut b2 = b1.clone();
                let (x, y) = (r.read_slice(&mut b1), m2.read_slice(&mut b2));
                (format!("{} {}", res(x), crate::case::hex(&b1)), format!("{} {}", res(y), crate::case::hex(&b2)))
            }
            _ => {
                new = Some((r.clone(), m2.clone()));
                ("cloned".into(), "cloned".into())
            }
        };
        let injected = ctx.sim.fired.get() != fired0;
        let after = view(&hs[hi].0);
        ev!(ctx, "step {} op={} h={} -> {} (model {}) injected={}", si, op[0], hi, o_r, o_m, injected);
        if injected || o_r.starts_with("Err") {
            // a failed operation consumes nothing; the model is not advanced either
            if o_r.starts_with("Err") && after != before && op[0] == 28 {
                // read_null_terminated_slice is find + split + skip for every reader kind: when
                // the wrapped reader fails between those steps the bytes already taken are gone
                // for any of them. Follow the reader.
                let h = &mut hs[hi];
                h.1.start = after.0;
                h.1.len = after.1;
                continue;
            }
            if o_r.starts_with("Err") && after != before {
                ctx.violate(
                    "c10_result",
                    format!("step {} op {}: the operation failed (`{}`) but the identity-relocating view moved from {:?} to {:?}", si, op[0], o_r, before, after),
                );
                return;
            }
            if o_r.starts_with("Err") {
                continue;
            }
            // an injected failure that the operation absorbed cannot happen for these operations
        }
        if o_r != o_m {
            ctx.violate("c10_result", format!("step {} op {}: `{}` but the cursor model says `{}`", si, op[0], o_r, o_m));
            return;
        }
        hs[hi].1 = m2;
        if let Some(n) = new {
            hs.push(n);
        }
        let (st, ln) = view(&hs[hi].0);
        if (st, ln) != (hs[hi].1.start, hs[hi].1.len) {
            ctx.violate("c10_view", format!("after step {}: view {:?} but the model is at ({}, {})", si, (st, ln), hs[hi].1.start, hs[hi].1.len));
            return;
        }
    }
    ctx.end();
}

fn run_parse(case: &Case, ctx: &mut Ctx<'_>) {
    let fam = E1_FAMILIES[(case.steps[0][0] as usize) % E1_FAMILIES.len()];
    let mut sub = case.clone();
    sub.family = fam.to_string();
    let mut streams: Vec<(i64, String)> = Vec::new();
    for rk in [1i64, 0, 2, 3, 4, 5] {
        sub.set("rk", rk);
        ctx.sim.arm(crate::fault::FaultPlan::None);
        ctx.capture_begin();
        // the sub-case borrows live only for this call
        crate::drv::drive_case(&sub, ctx);
        streams.push((rk, ctx.capture_end()));
    }
    let names = ["FaultReader(no fault)", "EndianSlice", "EndianRcSlice", "EndianArcSlice", "EndianReader<CountingBuf>", "RelocateReader(identity)"];
    let (_, reference) = &streams[0];
    for (rk, s) in &streams[1..] {
        if s != reference {
            let d = reference
                .lines()
                .zip(s.lines())
                .enumerate()
                .find(|(_, (a, b))| a != b)
                .map(|(i, (a, b))| format!("event {}: EndianSlice `{}` vs `{}`", i, a, b))
                .unwrap_or_else(|| format!("event counts differ: {} vs {}", reference.lines().count(), s.lines().count()));
            ctx.violate("c10_parse_equivalence", format!("family {} under {}: {}", fam, names[*rk as usize], d));
            return;
        }
    }
}

pub fn run(case: &Case, ctx: &mut Ctx<'_>) {
    match case.family.as_str() {
        "lockstep" => run_lockstep(case, ctx),
        "relocfault" => run_relocfault(case, ctx),
        "parse" => run_parse(case, ctx),
        other => panic!("e2 family {}", other),
    }
}
