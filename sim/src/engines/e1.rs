//! E1 `faultsim`: every reading entry point, driven by an error-ignoring caller over the
//! fault-injecting reader. Serves C01 (all oracles) and the C04/C08 monitors.

use super::Tier;
use crate::case::Case;
use crate::ctx::Ctx;
use crate::wl::{self as gen_, asm};
use crate::rng::{mix, tag, Rng};

/// (family, weight, sections it uses with the main one first)
pub const FAMILIES: &[(&str, u64)] = &[("aranges", 10), ("addr", 6), ("str", 4), ("pub", 6), ("line", 24), ("macros", 6), ("lists", 20), ("info", 40), ("cfi", 40), ("op", 30), ("names", 16), ("index", 12), ("convert", 30)];

pub fn families_for(prop: &str) -> Vec<(&'static str, u64)> {
    match prop {
        "C04" => vec![("line", 30), ("info", 10)],
        "C08" => vec![("lists", 30), ("info", 10)],
        _ => FAMILIES.to_vec(),
    }
}

pub fn main_section(family: &str) -> &'static str {
    match family {
        "aranges" => "debug_aranges",
        "addr" => "debug_addr",
        "str" => "debug_str_offsets",
        "pub" => "debug_pubnames",
        "line" => "debug_line",
        "macros" => "debug_macinfo",
        "lists" => "debug_rnglists",
        "info" => "debug_info",
        "cfi" => "eh_frame",
        "op" => "expr",
        "names" => "debug_names",
        "convert" => "debug_info",
        "index" => "debug_cu_index",
        _ => "",
    }
}

/// Fault plan as generated (unresolved): [10 + kind, frac (0..2^32), err]; the worker
/// resolves `k = frac * ops_of_fault_free_twin >> 32` so that faults land inside
/// operations, never after the end.
pub fn unresolved_fault(rng: &mut Rng) -> Vec<i64> {
    let r = rng.below(100);
    let frac = rng.below(1 << 32) as i64;
    let err = rng.chance(1, 3) as i64;
    if r < 28 {
        vec![0]
    } else if r < 58 {
        vec![11, frac, err]
    } else if r < 82 {
        vec![12, frac, err]
    } else if r < 91 {
        // flaky storage: every p-th operation from k on fails
        vec![13, frac, err, *rng.pick(&[2i64, 2, 3, 3, 4, 5, 7, 16])]
    } else {
        // an outage of n operations that heals
        vec![14, frac, err, *rng.pick(&[2i64, 2, 3, 4, 6, 12, 40])]
    }
}

pub fn resolve_fault(fault: &[i64], twin_ops: u64) -> Vec<i64> {
    if fault.first().copied().unwrap_or(0) < 10 {
        return fault.to_vec();
    }
    let k = ((fault[1] as u128 * twin_ops.max(1) as u128) >> 32) as i64;
    let mut v = vec![fault[0] - 10, k, fault[2]];
    v.extend_from_slice(&fault[3..]);
    v
}

/// (corpus items per family, fault positions per item) of the sweep block.
pub fn sweep_dims(tier: Tier) -> (u64, u64) {
    match tier {
        Tier::Quick => (2, 160),
        Tier::Thorough => (12, 1200),
    }
}

pub fn gen_case(prop: &str, tier: Tier, master: u64, i: u64) -> Case {
    let fams = families_for(prop);
    // Block 0: exhaustive short strings per family (W-noise, fault-free).
    let n_short = match tier {
        Tier::Quick => 257,
        Tier::Thorough => gen_::N_SHORT_EXHAUSTIVE,
    };
    let short_total = n_short * fams.len() as u64;
    if i < short_total {
        let fam = fams[(i / n_short) as usize].0;
        let mut c = Case::new("e1", fam);
        let mut rng = Rng::new(mix(master, tag("e1short"), i));
        c.set("be", rng.bool() as i64);
        c.set("addr_size", *rng.pick(&[1, 2, 4, 8]));
        c.set("sel", rng.below(1 << 30) as i64);
        c.put(main_section(fam), gen_::short_string(i % n_short));
        c.note = "short".into();
        return c;
    }
    // Block 1: fault-position sweep ("crash at every point"): for a fixed small corpus per
    // family, every fault position k in [0, kmax) x {transient, sticky} x {Io, Eof}, and
    // truncation at every byte k. Positions beyond the end of a corpus item never fire.
    let i = i - short_total;
    let (items, kmax) = sweep_dims(tier);
    let per_item = 5 * kmax;
    let sweep_total = fams.len() as u64 * items * per_item;
    if i < sweep_total {
        let fi = (i / (items * per_item)) as usize;
        let fam = fams[fi].0;
        let rest = i % (items * per_item);
        let item = rest / per_item;
        let kind = (rest % per_item) / kmax;
        let k = rest % kmax;
        let mut c = Case::new("e1", fam);
        // corpus item: seed-independent, uncorrupted
        let mut rng = Rng::new(mix(0x5eed_c0de, tag(fam), item));
        let be = item % 3 == 2;
        c.set("be", be as i64);
        c.set("addr_size", [8i64, 4, 8, 2, 8, 4, 1, 8][(item % 8) as usize]);
        c.set("sel", rng.below(1 << 30) as i64);
        gen_family(&mut rng.fork(), &mut c, fam, be);
        // regenerate without corruption when the note shows any
        let mut tries = 0;
        while c.note.contains('+') && tries < 16 {
            let mut c2 = Case::new("e1", fam);
            c2.knobs = c.knobs.clone();
            gen_family(&mut rng.fork(), &mut c2, fam, be);
            c = c2;
            tries += 1;
        }
        match kind {
            0 => c.fault = vec![1, k as i64, 0],
            1 => c.fault = vec![1, k as i64, 1],
            2 => c.fault = vec![2, k as i64, 0],
            3 => c.fault = vec![2, k as i64, 1],
            _ => {
                let m = main_section(fam).to_string();
                if let Some(v) = c.secs.get_mut(&m) {
                    if (k as usize) < v.len() {
                        v.truncate(k as usize);
                        c.set("truncated_at", k as i64);
                    }
                }
            }
        }
        c.note = format!("sweep:{}", c.note);
        return c;
    }
    let i = i - sweep_total;
    let mut rng = Rng::new(mix(master, tag("e1"), i));
    let total: u64 = fams.iter().map(|f| f.1).sum();
    let mut r = rng.below(total);
    let mut fam = fams[0].0;
    for (f, w) in &fams {
        if r < *w {
            fam = f;
            break;
        }
        r -= w;
    }
    let mut c = Case::new("e1", fam);
    let be = rng.chance(1, 3);
    c.set("be", be as i64);
    c.set("addr_size", *rng.pick(&[1, 2, 4, 8, 8]));
    c.set("sel", rng.below(1 << 30) as i64);
    gen_family(&mut rng, &mut c, fam, be);
    c.fault = unresolved_fault(&mut rng);
    if c.fault[0] != 0 && c.secs.len() > 1 && rng.chance(1, 4) {
        // one stored section is bad, the others are fine
        c.set("fscope", 1 + rng.below(c.secs.len() as u64) as i64);
        c.note.push_str("+scoped");
    }
    if rng.chance(1, 30) {
        // the Relocate seam: a relocation table that fails at call k (no reader faults then:
        // this reader kind is not wrapped by the fault-injecting reader)
        c.set("rk", 6);
        c.set("reloc_fail_at", rng.below(24) as i64);
        c.fault = vec![0];
        c.note.push_str("+failing_relocate");
    }
    // truncation-at-byte-k fault (static): applied to the main section
    if rng.chance(15, 100) {
        let m = main_section(fam).to_string();
        if let Some(v) = c.secs.get_mut(&m) {
            if !v.is_empty() {
                let k = rng.usize(v.len());
                v.truncate(k);
                c.set("truncated_at", k as i64);
                c.note.push_str("+trunc");
            }
        }
    }
    c
}

fn gen_family(rng: &mut Rng, c: &mut Case, fam: &str, be: bool) {
    let mut note = String::new();
    match fam {
        "aranges" => {
            let mut v = match rng.below(10) {
                0 => {
                    note.push_str("noise");
                    gen_::noise(rng, 256)
                }
                1..=3 if !be => {
                    note.push_str("fixture");
                    gen_::fixture_slice(rng, "debug_aranges", 3, 4096)
                }
                _ => {
                    note.push_str("asm");
                    asm::aranges(rng, be)
                }
            };
            gen_::corrupt_some(rng, &mut v, gen_::fixture("debug_aranges"), &mut note);
            // size knob: a large run of zero tuples makes input-proportional recursion visible
            if rng.chance(1, 24) {
                let s = rng.range(8, 17);
                let at = v.len().min(16 + rng.usize(16));
                v.splice(at..at, std::iter::repeat(0u8).take(1 << s));
                // keep the set length consistent with the inflated body when it was intact
                if v.len() >= 4 && !be && rng.bool() {
                    let l = (v.len() - 4) as u32;
                    v[..4].copy_from_slice(&l.to_le_bytes());
                }
                note.push_str("+bigzero");
            }
            c.put("debug_aranges", v);
        }
        "addr" => {
            let mut v = if rng.chance(1, 8) {
                note.push_str("noise");
                gen_::noise(rng, 128)
            } else {
                note.push_str("asm");
                asm::addr(rng, be)
            };
            gen_::corrupt_some(rng, &mut v, &[], &mut note);
            c.put("debug_addr", v);
        }
        "str" => {
            let (mut s, mut o) = asm::strs(rng, be);
            note.push_str("asm");
            if rng.chance(1, 4) && !be {
                let fx = gen_::fixture("debug_str");
                let a = rng.usize(fx.len() - 512);
                s = fx[a..a + 512].to_vec();
                note.push_str("+fixture_str");
            }
            gen_::corrupt_some(rng, &mut o, &s, &mut note);
            if rng.chance(1, 4) {
                gen_::corrupt_some(rng, &mut s, &[], &mut note);
            }
            c.put("debug_line_str", s.clone());
            c.put("debug_str", s);
            c.put("debug_str_offsets", o);
        }
        "pub" => {
            let mut v = match rng.below(10) {
                0 => {
                    note.push_str("noise");
                    gen_::noise(rng, 256)
                }
                1..=3 if !be => {
                    note.push_str("fixture");
                    gen_::fixture_slice(rng, "debug_pubnames", 2, 4096)
                }
                _ => {
                    note.push_str("asm");
                    asm::pubs(rng, be)
                }
            };
            gen_::corrupt_some(rng, &mut v, gen_::fixture("debug_pubtypes"), &mut note);
            c.put("debug_pubtypes", v.clone());
            c.put("debug_pubnames", v);
        }
        "line" => {
            let asz = c.knob("addr_size", 8) as u8;
            let mut v = match rng.below(10) {
                0 => {
                    note.push_str("noise");
                    gen_::noise(rng, 256)
                }
                1..=2 if !be => {
                    note.push_str("fixture");
                    gen_::fixture_slice(rng, "debug_line", 1, 6000)
                }
                _ => {
                    note.push_str("asm");
                    asm::line_program(rng, be, asz)
                }
            };
            gen_::corrupt_some(rng, &mut v, gen_::fixture("debug_line"), &mut note);
            c.put("debug_line", v);
        }
        "macros" => {
            let mut i = asm::macros(rng, be, false);
            let mut m = asm::macros(rng, be, true);
            note.push_str("asm");
            gen_::corrupt_some(rng, &mut i, &[], &mut note);
            gen_::corrupt_some(rng, &mut m, &[], &mut note);
            if rng.chance(1, 10) {
                i = gen_::noise(rng, 64);
                m = i.clone();
                note.push_str("+noise");
            }
            c.put("debug_macinfo", i);
            c.put("debug_macro", m);
        }
        "lists" => {
            let asz = c.knob("addr_size", 8) as u8;
            let d64 = rng.chance(1, 4);
            let version = *rng.pick(&[2i64, 3, 4, 4, 5, 5, 5]);
            c.set("d64", d64 as i64);
            c.set("version", version);
            c.set("dwo", rng.chance(1, 4) as i64);
            c.set("base_address", match rng.below(4) { 0 => 0, 1 => rng.interesting() as i64, _ => rng.below(0x10000) as i64 });
            c.set("addr_base", *rng.pick(&[0i64, 8, 8, 16]));
            let (mut r, mut rl, mut l, mut ll, first) = asm::lists(rng, be, asz, d64, version as u16);
            c.set("list_off", if version >= 5 { first as i64 } else { 0 });
            note.push_str("asm");
            if version <= 4 && c.knob("dwo", 0) != 0 && !rng.chance(1, 4) {
                l = asm::gnu_loc(rng, be, asz);
                note.push_str("+gnuloc");
            }
            if rng.chance(1, 12) && !be {
                let fx = gen_::fixture("debug_ranges");
                let a = (rng.usize(fx.len() / 16 - 64)) * 16;
                r = fx[a..a + 512].to_vec();
                let fx = gen_::fixture("debug_loc");
                let a = rng.usize(fx.len() - 600);
                l = fx[a..a + 512].to_vec();
                note.push_str("+fixture");
            }
            if rng.chance(1, 12) {
                r = gen_::noise(rng, 96);
                rl = gen_::noise(rng, 96);
                l = r.clone();
                ll = rl.clone();
                note.push_str("+noise");
            }
            let which = rng.below(4);
            match which {
                0 => gen_::corrupt_some(rng, &mut r, &[], &mut note),
                1 => gen_::corrupt_some(rng, &mut rl, &[], &mut note),
                2 => gen_::corrupt_some(rng, &mut l, &[], &mut note),
                _ => gen_::corrupt_some(rng, &mut ll, &[], &mut note),
            }
            let mut ad = asm::addr(rng, be);
            if rng.chance(1, 4) {
                gen_::corrupt_some(rng, &mut ad, &[], &mut note);
            }
            c.put("debug_ranges", r);
            c.put("debug_rnglists", rl);
            c.put("debug_loc", l);
            c.put("debug_loclists", ll);
            c.put("debug_addr", ad);
        }
        "info" => {
            let asz = c.knob("addr_size", 8) as u8;
            c.set("cache", rng.below(3) as i64);
            c.set("dwo", rng.chance(1, 3) as i64);
            let mode = rng.below(10);
            let mut secs: std::collections::BTreeMap<String, Vec<u8>> = Default::default();
            if mode < 4 {
                if let Some(m) = crate::wl::writer::dwarf_sections(rng, be, asz) {
                    secs = m;
                    note.push_str("writer");
                }
            } else if mode == 4 && !be {
                note.push_str("fixture");
                // one or two small units of the fixture with the tables they reference
                let fx = gen_::fixture("debug_info");
                let b = gen_::record_bounds(fx, "debug_info");
                let mut tries = 0;
                let mut i = rng.usize(b.len());
                while b[i].1 - b[i].0 > 6000 && tries < 8 {
                    i = rng.usize(b.len());
                    tries += 1;
                }
                let (st, en) = b[i];
                secs.insert("debug_info".into(), fx[st..en.min(st + 12000)].to_vec());
                secs.insert("debug_abbrev".into(), gen_::fixture("debug_abbrev").to_vec());
                let s = gen_::fixture("debug_str");
                secs.insert("debug_str".into(), s[..4096].to_vec());
                secs.insert("debug_line".into(), gen_::fixture_slice(rng, "debug_line", 1, 4000));
                secs.insert("debug_ranges".into(), gen_::fixture("debug_ranges")[..2048].to_vec());
                secs.insert("debug_loc".into(), gen_::fixture("debug_loc")[..2048].to_vec());
            }
            if secs.is_empty() && mode >= 8 {
                note.push_str("asmlists");
                secs = asm::info_lists(rng, be, asz, c.knob("dwo", 0) != 0);
                let (s, o) = asm::strs(rng, be);
                secs.insert("debug_str".into(), s);
                secs.insert("debug_str_offsets".into(), o);
            }
            if secs.is_empty() {
                note.push_str("asm");
                let (ab, info, types) = asm::info(rng, be, asz);
                secs.insert("debug_abbrev".into(), ab);
                secs.insert("debug_info".into(), info);
                secs.insert("debug_types".into(), types);
                let (s, o) = asm::strs(rng, be);
                secs.insert("debug_str".into(), s.clone());
                secs.insert("debug_line_str".into(), s);
                secs.insert("debug_str_offsets".into(), o);
                secs.insert("debug_addr".into(), asm::addr(rng, be));
                let d64l = rng.chance(1, 4);
                let (r, rl, l, ll, _) = asm::lists(rng, be, asz, d64l, 5);
                secs.insert("debug_ranges".into(), r);
                secs.insert("debug_rnglists".into(), rl);
                secs.insert("debug_loc".into(), if c.knob("dwo", 0) != 0 && rng.bool() { asm::gnu_loc(rng, be, asz) } else { l });
                secs.insert("debug_loclists".into(), ll);
                secs.insert("debug_line".into(), asm::line_program(rng, be, asz));
                secs.insert("debug_macinfo".into(), asm::macros(rng, be, false));
                secs.insert("debug_macro".into(), asm::macros(rng, be, true));
                if rng.chance(1, 6) {
                    c.set("sup", 1);
                    let (s2, _) = asm::strs(rng, be);
                    secs.insert("sup_debug_str".into(), s2);
                }
            }
            // size knob: DIE nesting depth (stack use proportional to depth becomes visible)
            if rng.chance(1, 150) {
                let depth = 1usize << if rng.chance(1, 6) { rng.range(13, 15) } else { rng.range(6, 12) };
                let depth = depth + rng.usize(depth);
                let (ab, info) = if rng.chance(1, 3) {
                    note.push_str("+deepexpr");
                    asm::deep_expr(rng, be, asz, depth.min(6000))
                } else {
                    asm::deep_chain(rng, be, asz, depth)
                };
                secs.insert("debug_abbrev".into(), ab);
                secs.insert("debug_info".into(), info);
                secs.insert("debug_types".into(), Vec::new());
                // the caller is a default std::thread: 2 MiB of stack
                c.set("stack_kib", 2048);
                note.push_str("+deepchain");
            }
            // corruption: mostly the DIE stream / abbreviations
            let target = *rng.pick(&["debug_info", "debug_info", "debug_info", "debug_abbrev", "debug_abbrev", "debug_str", "debug_line", "debug_ranges", "debug_loc", "debug_rnglists", "debug_loclists", "debug_str_offsets", "debug_addr"]);
            if let Some(v) = secs.get_mut(target) {
                let other = gen_::fixture("debug_info");
                gen_::corrupt_some(rng, v, &other[..256], &mut note);
            }
            for (k, v) in secs {
                c.put(&k, v);
            }
        }
        "cfi" => {
            let asz = c.knob("addr_size", 8) as u8;
            c.set("vendor", rng.chance(1, 4) as i64);
            c.set("bases", if rng.chance(1, 6) { rng.below(16) as i64 } else { 0xf });
            c.set("storage", *rng.pick(&[0i64, 0, 0, 1, 2]));
            c.set("cie_provider", rng.below(2) as i64);
            c.set("cie_fail_at", if rng.chance(1, 10) { rng.below(6) as i64 } else { -1 });
            let mode = rng.below(10);
            let (mut eh, mut df, mut hdr);
            if mode < 2 {
                match crate::wl::writer::frame_sections(rng, be, asz) {
                    Some((d, e)) => {
                        note.push_str("writer");
                        df = d;
                        eh = e;
                        hdr = asm::cfi(rng, be, asz).eh_frame_hdr;
                    }
                    None => {
                        note.push_str("asm");
                        let o = asm::cfi(rng, be, asz);
                        eh = o.eh_frame;
                        df = o.debug_frame;
                        hdr = o.eh_frame_hdr;
                    }
                }
            } else if mode == 2 && !be {
                note.push_str("fixture");
                eh = gen_::fixture_slice(rng, "eh_frame", 6, 2048);
                // the fixture's first CIEs so that FDE cie pointers of early entries resolve
                let fx = gen_::fixture("eh_frame");
                if rng.bool() {
                    eh = fx[..1024].to_vec();
                }
                df = Vec::new();
                let h = gen_::fixture("eh_frame_hdr");
                hdr = h[..(12 + 8 * rng.usize(64)).min(h.len())].to_vec();
            } else if mode == 3 {
                note.push_str("noise");
                eh = gen_::noise(rng, 128);
                df = gen_::noise(rng, 128);
                hdr = gen_::noise(rng, 64);
            } else {
                note.push_str("asm");
                let o = asm::cfi(rng, be, asz);
                eh = o.eh_frame;
                df = o.debug_frame;
                hdr = o.eh_frame_hdr;
            }
            match rng.below(4) {
                0 => gen_::corrupt_some(rng, &mut eh, gen_::fixture("eh_frame"), &mut note),
                1 => gen_::corrupt_some(rng, &mut df, gen_::fixture("eh_frame"), &mut note),
                2 => gen_::corrupt_some(rng, &mut hdr, gen_::fixture("eh_frame_hdr"), &mut note),
                _ => {}
            }
            c.put("eh_frame", eh);
            c.put("debug_frame", df);
            c.put("eh_frame_hdr", hdr);
        }
        "op" => {
            let asz = c.knob("addr_size", 8) as u8;
            let d64 = rng.chance(1, 4);
            let version = *rng.pick(&[2i64, 3, 4, 4, 5, 5]);
            c.set("d64", d64 as i64);
            c.set("version", version);
            c.set("world_seed", rng.below(1 << 30) as i64);
            c.set("chaos", if rng.chance(1, 3) { rng.below(8) as i64 } else { 0 });
            c.set("storage", *rng.pick(&[0i64, 0, 1, 2]));
            c.set("max_iter", if rng.chance(1, 8) { rng.below(4) as i64 } else { 200 });
            if rng.chance(1, 4) {
                c.set("has_init", 1);
                c.set("init", rng.interesting() as i64);
            }
            if rng.chance(1, 4) {
                c.set("has_obj", 1);
                c.set("obj", rng.interesting() as i64);
            }
            if rng.chance(1, 10) {
                c.set("abandon", rng.below(4) as i64);
            }
            let p = crate::wl::expr::EncParams { be, addr_size: asz, d64, version: version as u16 };
            let prog = if rng.bool() {
                crate::wl::expr::valid_program(rng, 16, &p, true)
            } else {
                crate::wl::expr::random_program(rng, 14, &p)
            };
            let mut bytes = crate::wl::expr::encode(&prog, &p);
            note.push_str("asm");
            if rng.chance(1, 6) {
                // typed arithmetic on boundary literals of one base type
                use crate::wl::expr::Ins;
                let ty = 1 + rng.below(10);
                let mut g = Vec::new();
                for _ in 0..2 {
                    let mut ins = Ins::u(0xa4, ty);
                    ins.bytes = crate::engines::e3::grid_literal(ty as usize, rng.below(6), be);
                    g.push(ins);
                }
                g.push(Ins::op(*rng.pick(crate::engines::e3::GRID_OPS)));
                g.push(Ins::op(0x9f));
                bytes = crate::wl::expr::encode(&g, &p);
                note.push_str("+typedgrid");
            }
            if rng.chance(1, 12) {
                bytes = gen_::noise(rng, 48);
                note.push_str("+noise");
            }
            gen_::corrupt_some(rng, &mut bytes, &[], &mut note);
            let nsubs = rng.usize(4);
            c.set("nsubs", nsubs as i64);
            for i in 0..nsubs {
                let sp = crate::wl::expr::valid_program(rng, 5, &p, false);
                c.put(crate::drv::op::SUB_NAMES[i], crate::wl::expr::encode(&sp, &p));
            }
            c.put("expr", bytes);
        }
        "names" => {
            let (mut nm, st, _) = asm::names(rng, be);
            note.push_str("asm");
            if rng.chance(1, 12) {
                nm = gen_::noise(rng, 128);
                note.push_str("+noise");
            }
            gen_::corrupt_some(rng, &mut nm, &[], &mut note);
            c.put("debug_names", nm);
            c.put("debug_str", st);
        }
        "index" => {
            let asz = c.knob("addr_size", 8) as u8;
            // a small package: units + abbrevs that the index rows point into
            let (ab, info, types) = asm::info(rng, be, asz);
            let (mut cu, ids) = asm::unit_index(rng, be, info.len() as u32);
            let (mut tu, ids2) = asm::unit_index(rng, be, types.len().max(8) as u32);
            note.push_str("asm");
            for (k, id) in ids.iter().chain(ids2.iter()).take(4).enumerate() {
                c.set(["id0", "id1", "id2", "id3"][k], *id as i64);
            }
            if rng.chance(1, 10) {
                cu = gen_::noise(rng, 96);
                note.push_str("+noise");
            }
            if rng.bool() {
                gen_::corrupt_some(rng, &mut cu, &[], &mut note);
            } else {
                gen_::corrupt_some(rng, &mut tu, &[], &mut note);
            }
            c.put("debug_cu_index", cu);
            c.put("debug_tu_index", tu);
            c.put("debug_abbrev", ab);
            c.put("debug_info", info);
            c.put("debug_types", types);
            let (s, o) = asm::strs(rng, be);
            c.put("debug_str", s);
            c.put("debug_str_offsets", o);
            c.put("debug_line", asm::line_program(rng, be, asz));
            c.put("parent_debug_addr", asm::addr(rng, be));
        }
        "convert" => {
            gen_family(rng, c, "info", be);
            let n1 = std::mem::take(&mut c.note);
            gen_family(rng, c, "cfi", be);
            note = format!("{}+{}", n1, c.note);
            if rng.chance(1, 4) {
                // a skeleton unit in the main file and the split unit it names in a DWO file
                let asz = c.knob("addr_size", 8) as u8;
                let (main, split) = asm::split_pair(rng, be, asz);
                for (k, v) in main {
                    c.put(&k, v);
                }
                for (k, mut v) in split {
                    if rng.chance(1, 10) {
                        gen_::corrupt_some(rng, &mut v, &[], &mut note);
                    }
                    c.put(&format!("dwo_{}", k), v);
                }
                c.set("dwo", 0);
                note.push_str("+split");
            }
            c.set("addr_fail_at", if rng.chance(1, 8) { rng.below(12) as i64 } else { -1 });
            c.set("write_fail_at", if rng.chance(1, 8) { rng.below(40) as i64 } else { -1 });
        }
        _ => panic!("gen_family: {}", fam),
    }
    c.note = note;
}

pub fn run(case: &Case, ctx: &mut Ctx<'_>) {
    crate::drv::drive_case(case, ctx);
}
