//! E5 `loadersim`: the section-loader closure is gimli's object-file I/O seam. A stub
//! loader hands out a distinct marker buffer per SectionId, logs every request and can
//! fail at call k. Decides the last sentence of C17: each section type receives that
//! section's data and no other. The space is finite and enumerated exhaustively:
//! (entry point) x (failure index k in -1..=calls).

use crate::case::Case;
use crate::ctx::Ctx;
use crate::ev;
use crate::wl::asm::Asm;
use gimli::{
    DebugAbbrev, DebugAddr, DebugAranges, DebugCuIndex, DebugFrame, DebugInfo, DebugLine,
    DebugLineStr, DebugLoc, DebugLocLists, DebugMacinfo, DebugMacro, DebugNames, DebugPubNames,
    DebugPubTypes, DebugRanges, DebugRngLists, DebugStr, DebugStrOffsets, DebugTuIndex,
    DebugTypes, Dwarf, DwarfFileType, DwarfPackage, DwarfPackageSections, DwarfSections, EhFrame,
    EhFrameHdr, EndianSlice, LittleEndian, Reader, ReaderOffsetId, Section, SectionId,
};
use std::cell::RefCell;

pub const ALL_IDS: [SectionId; 23] = [
    SectionId::DebugAbbrev,
    SectionId::DebugAddr,
    SectionId::DebugAranges,
    SectionId::DebugCuIndex,
    SectionId::DebugFrame,
    SectionId::EhFrame,
    SectionId::EhFrameHdr,
    SectionId::DebugInfo,
    SectionId::DebugLine,
    SectionId::DebugLineStr,
    SectionId::DebugLoc,
    SectionId::DebugLocLists,
    SectionId::DebugMacinfo,
    SectionId::DebugMacro,
    SectionId::DebugNames,
    SectionId::DebugPubNames,
    SectionId::DebugPubTypes,
    SectionId::DebugRanges,
    SectionId::DebugRngLists,
    SectionId::DebugStr,
    SectionId::DebugStrOffsets,
    SectionId::DebugTuIndex,
    SectionId::DebugTypes,
];

/// (family, number of loader calls of a fault-free run)
pub const FAMILIES: &[(&str, u64)] = &[
    ("sections_load", 16),
    ("dwarf_load", 16),
    ("load_sup", 16),
    ("dwp_sections_load", 13),
    ("dwp_load", 13),
    ("section_load_each", 23),
    ("borrow", 16),
    ("make_dwo", 32),
    ("dwp_unit_sections", 13),
    ("dwp_unit_sections_v2", 13),
    ("names", 0),
];

pub fn total_indices() -> u64 {
    FAMILIES.iter().map(|f| f.1 + 2).sum()
}

pub fn gen_case(i: u64) -> Case {
    let mut k = i;
    for (f, calls) in FAMILIES {
        let n = calls + 2; // fail_at in -1..=calls
        if k < n {
            let mut c = Case::new("e5", f);
            c.set("fail_at", k as i64 - 1);
            return c;
        }
        k -= n;
    }
    let mut c = Case::new("e5", "sections_load");
    c.set("fail_at", -1);
    c
}

type R<'a> = EndianSlice<'a, LittleEndian>;

struct Markers {
    bufs: Vec<(SectionId, Vec<u8>)>,
}

impl Markers {
    fn new(salt: u8) -> Markers {
        let mut bufs = Vec::new();
        for (k, id) in ALL_IDS.iter().enumerate() {
            let mut v = format!("<<{}#{}>>", id.name(), salt).into_bytes();
            while v.len() < 96 {
                v.push(0x40 + k as u8);
            }
            bufs.push((*id, v));
        }
        Markers { bufs }
    }
    fn get(&self, id: SectionId) -> &[u8] {
        self.bufs.iter().find(|b| b.0 == id).map(|b| &b.1[..]).unwrap()
    }
}

struct Loader<'a> {
    markers: &'a Markers,
    fail_at: i64,
    log: RefCell<Vec<SectionId>>,
}

impl<'a> Loader<'a> {
    fn load(&self, id: SectionId) -> Result<R<'a>, gimli::Error> {
        let n = self.log.borrow().len() as i64;
        self.log.borrow_mut().push(id);
        if self.fail_at >= 0 && n == self.fail_at {
            return Err(gimli::Error::Io);
        }
        Ok(EndianSlice::new(self.markers.get(id), LittleEndian))
    }
}

/// `id` is the section type the *harness* pairs with this field (written out by hand at every
/// call site; nothing is derived from gimli's own `Section::id()`), which is also checked.
fn expect_section<'a, S: Section<R<'a>>>(ctx: &mut Ctx<'_>, what: &str, s: &S, id: SectionId, m: &Markers) {
    let got = s.reader().slice();
    let want = m.get(id);
    ev!(ctx, "{} {} len={}", what, std_names(id).0, got.len());
    if got != want || got.as_ptr() != want.as_ptr() {
        ctx.violate(
            "c17_routing",
            format!(
                "{}: field of section type {} holds {:?}",
                what,
                std_names(id).0,
                String::from_utf8_lossy(&got[..got.len().min(24)])
            ),
        );
    }
    if S::id() != id || S::section_name() != std_names(id).0 || S::dwo_section_name() != std_names(id).1 || S::xcoff_section_name() != std_names(id).2 {
        ctx.violate(
            "c17_routing",
            format!("{}: the type of the {} field reports id {:?}, names {:?} / {:?} / {:?}", what, std_names(id).0, S::id(), S::section_name(), S::dwo_section_name(), S::xcoff_section_name()),
        );
    }
}

/// The section names of the DWARF standard (ELF), of split DWARF (.dwo files and packages) and
/// of XCOFF, written out independently of gimli's tables.
pub fn std_names(id: SectionId) -> (&'static str, Option<&'static str>, Option<&'static str>) {
    match id {
        SectionId::DebugAbbrev => (".debug_abbrev", Some(".debug_abbrev.dwo"), Some(".dwabrev")),
        SectionId::DebugAddr => (".debug_addr", None, None),
        SectionId::DebugAranges => (".debug_aranges", None, Some(".dwarnge")),
        SectionId::DebugCuIndex => (".debug_cu_index", Some(".debug_cu_index"), None),
        SectionId::DebugFrame => (".debug_frame", None, Some(".dwframe")),
        SectionId::EhFrame => (".eh_frame", None, None),
        SectionId::EhFrameHdr => (".eh_frame_hdr", None, None),
        SectionId::DebugInfo => (".debug_info", Some(".debug_info.dwo"), Some(".dwinfo")),
        SectionId::DebugLine => (".debug_line", Some(".debug_line.dwo"), Some(".dwline")),
        SectionId::DebugLineStr => (".debug_line_str", None, None),
        SectionId::DebugLoc => (".debug_loc", Some(".debug_loc.dwo"), Some(".dwloc")),
        SectionId::DebugLocLists => (".debug_loclists", Some(".debug_loclists.dwo"), None),
        SectionId::DebugMacinfo => (".debug_macinfo", Some(".debug_macinfo.dwo"), Some(".dwmac")),
        SectionId::DebugMacro => (".debug_macro", Some(".debug_macro.dwo"), None),
        SectionId::DebugNames => (".debug_names", None, None),
        SectionId::DebugPubNames => (".debug_pubnames", None, Some(".dwpbnms")),
        SectionId::DebugPubTypes => (".debug_pubtypes", None, Some(".dwpbtyp")),
        SectionId::DebugRanges => (".debug_ranges", None, Some(".dwrnges")),
        SectionId::DebugRngLists => (".debug_rnglists", Some(".debug_rnglists.dwo"), None),
        SectionId::DebugStr => (".debug_str", Some(".debug_str.dwo"), Some(".dwstr")),
        SectionId::DebugStrOffsets => (".debug_str_offsets", Some(".debug_str_offsets.dwo"), None),
        SectionId::DebugTuIndex => (".debug_tu_index", Some(".debug_tu_index"), None),
        SectionId::DebugTypes => (".debug_types", Some(".debug_types.dwo"), None),
    }
}

fn expect_ptr_in(ctx: &mut Ctx<'_>, what: &str, found: Option<(SectionId, usize)>, id: SectionId) {
    ev!(ctx, "{} lookup -> {:?}", what, found);
    if found != Some((id, 0)) {
        ctx.violate("c17_routing", format!("{}: marker of {} resolved to {:?}", what, id.name(), found));
    }
}

fn check_dwarf<'a>(ctx: &mut Ctx<'_>, what: &str, d: &Dwarf<R<'a>>, m: &Markers, addr_m: &Markers, ranges_m: &Markers) {
    expect_section(ctx, what, &d.debug_abbrev, SectionId::DebugAbbrev, m);
    expect_section(ctx, what, &d.debug_addr, SectionId::DebugAddr, addr_m);
    expect_section(ctx, what, &d.debug_aranges, SectionId::DebugAranges, m);
    expect_section(ctx, what, &d.debug_info, SectionId::DebugInfo, m);
    expect_section(ctx, what, &d.debug_line, SectionId::DebugLine, m);
    expect_section(ctx, what, &d.debug_line_str, SectionId::DebugLineStr, m);
    expect_section(ctx, what, &d.debug_macinfo, SectionId::DebugMacinfo, m);
    expect_section(ctx, what, &d.debug_macro, SectionId::DebugMacro, m);
    expect_section(ctx, what, &d.debug_names, SectionId::DebugNames, m);
    expect_section(ctx, what, &d.debug_str, SectionId::DebugStr, m);
    expect_section(ctx, what, &d.debug_str_offsets, SectionId::DebugStrOffsets, m);
    expect_section(ctx, what, &d.debug_types, SectionId::DebugTypes, m);
    expect_section(ctx, what, d.ranges.debug_ranges(), SectionId::DebugRanges, ranges_m);
    expect_section(ctx, what, d.ranges.debug_rnglists(), SectionId::DebugRngLists, m);
    let id = |m: &Markers, s: SectionId| ReaderOffsetId(m.get(s).as_ptr() as u64);
    expect_ptr_in(ctx, what, d.locations.lookup_offset_id(id(m, SectionId::DebugLoc)), SectionId::DebugLoc);
    expect_ptr_in(ctx, what, d.locations.lookup_offset_id(id(m, SectionId::DebugLocLists)), SectionId::DebugLocLists);
    expect_ptr_in(ctx, what, d.ranges.lookup_offset_id(id(ranges_m, SectionId::DebugRanges)), SectionId::DebugRanges);
    expect_ptr_in(ctx, what, d.ranges.lookup_offset_id(id(m, SectionId::DebugRngLists)), SectionId::DebugRngLists);
    // Dwarf::lookup_offset_id ("call Reader::lookup_offset_id for each section") routes every
    // section the Dwarf holds to its own id
    for (s, mk) in [
        (SectionId::DebugAbbrev, m),
        (SectionId::DebugAddr, addr_m),
        (SectionId::DebugInfo, m),
        (SectionId::DebugLine, m),
        (SectionId::DebugLineStr, m),
        (SectionId::DebugStr, m),
        (SectionId::DebugStrOffsets, m),
        (SectionId::DebugTypes, m),
        (SectionId::DebugAranges, m),
        (SectionId::DebugMacinfo, m),
        (SectionId::DebugMacro, m),
        (SectionId::DebugNames, m),
        (SectionId::DebugLoc, m),
        (SectionId::DebugLocLists, m),
        (SectionId::DebugRanges, ranges_m),
        (SectionId::DebugRngLists, m),
    ] {
        let r = d.lookup_offset_id(id(mk, s)).map(|(sup, sid, off)| (sup, sid, off));
        if r != Some((false, s, 0)) {
            ctx.violate("c17_routing", format!("{}: Dwarf::lookup_offset_id({}) = {:?}", what, s.name(), r));
        }
    }
}

fn check_requests(ctx: &mut Ctx<'_>, what: &str, log: &[SectionId], expected_calls: usize, fail_at: i64, failed: bool) {
    ev!(ctx, "{} requests={:?}", what, log.iter().map(|i| i.name()).collect::<Vec<_>>());
    let want_calls = if fail_at >= 0 && (fail_at as usize) < expected_calls { fail_at as usize + 1 } else { expected_calls };
    if log.len() != want_calls {
        ctx.violate("c17_requests", format!("{}: {} loader calls, expected {}", what, log.len(), want_calls));
    }
    let should_fail = fail_at >= 0 && (fail_at as usize) < expected_calls;
    if failed != should_fail {
        ctx.violate("c17_requests", format!("{}: returned failure={} but loader failure injected={}", what, failed, should_fail));
    }
    // each id requested at most once
    let mut seen: Vec<SectionId> = Vec::new();
    for id in log {
        if seen.contains(id) {
            ctx.violate("c17_requests", format!("{}: section {} requested twice", what, id.name()));
        }
        seen.push(*id);
    }
}

pub fn run(case: &Case, ctx: &mut Ctx<'_>) {
    let fail_at = case.knob("fail_at", -1);
    let m = Markers::new(1);
    let m2 = Markers::new(2);
    let loader = Loader { markers: &m, fail_at, log: RefCell::new(Vec::new()) };
    ctx.enter("loader");
    ctx.item();
    match case.family.as_str() {
        "sections_load" => {
            let r: Result<DwarfSections<R>, gimli::Error> = DwarfSections::load(|id| loader.load(id));
            check_requests(ctx, "DwarfSections::load", &loader.log.borrow(), 16, fail_at, r.is_err());
            if let Ok(s) = r {
                ctx.item();
                let d = s.borrow(|r| *r);
                check_dwarf(ctx, "DwarfSections::load+borrow", &d, &m, &m, &m);
            } else {
                ctx.errs += 1;
            }
        }
        "dwarf_load" => {
            let r: Result<Dwarf<R>, gimli::Error> = Dwarf::load(|id| loader.load(id));
            check_requests(ctx, "Dwarf::load", &loader.log.borrow(), 16, fail_at, r.is_err());
            if let Ok(d) = r {
                ctx.item();
                check_dwarf(ctx, "Dwarf::load", &d, &m, &m, &m);
                if d.file_type != DwarfFileType::Main || d.sup().is_some() {
                    ctx.violate("c17_routing", "Dwarf::load: not a main file without sup".into());
                }
            } else {
                ctx.errs += 1;
            }
        }
        "load_sup" => {
            let main: Dwarf<R> = Dwarf::load(|id| -> Result<R, gimli::Error> { Ok(EndianSlice::new(m2.get(id), LittleEndian)) }).unwrap();
            let mut main = main;
            let r = main.load_sup(|id| loader.load(id));
            check_requests(ctx, "Dwarf::load_sup", &loader.log.borrow(), 16, fail_at, r.is_err());
            check_dwarf(ctx, "main after load_sup", &main, &m2, &m2, &m2);
            match (r, main.sup()) {
                (Ok(()), Some(sup)) => {
                    ctx.item();
                    check_dwarf(ctx, "sup", sup, &m, &m, &m);
                    // sup strings come from the sup file
                    let id = ReaderOffsetId(m.get(SectionId::DebugStr).as_ptr() as u64);
                    let r = main.lookup_offset_id(id);
                    if r != Some((true, SectionId::DebugStr, 0)) {
                        ctx.violate("c17_routing", format!("lookup of sup .debug_str = {:?}", r));
                    }
                }
                (Err(_), None) => ctx.errs += 1,
                (a, b) => ctx.violate("c17_routing", format!("load_sup result {:?} but sup present={}", a.is_ok(), b.is_some())),
            }
        }
        "dwp_sections_load" => {
            let r: Result<DwarfPackageSections<R>, gimli::Error> = DwarfPackageSections::load(|id| loader.load(id));
            check_requests(ctx, "DwarfPackageSections::load", &loader.log.borrow(), 13, fail_at, r.is_err());
            if let Ok(s) = r {
                ctx.item();
                expect_section(ctx, "dwp_sections", &s.cu_index, SectionId::DebugCuIndex, &m);
                expect_section(ctx, "dwp_sections", &s.tu_index, SectionId::DebugTuIndex, &m);
                expect_section(ctx, "dwp_sections", &s.debug_abbrev, SectionId::DebugAbbrev, &m);
                expect_section(ctx, "dwp_sections", &s.debug_info, SectionId::DebugInfo, &m);
                expect_section(ctx, "dwp_sections", &s.debug_line, SectionId::DebugLine, &m);
                expect_section(ctx, "dwp_sections", &s.debug_macinfo, SectionId::DebugMacinfo, &m);
                expect_section(ctx, "dwp_sections", &s.debug_macro, SectionId::DebugMacro, &m);
                expect_section(ctx, "dwp_sections", &s.debug_str, SectionId::DebugStr, &m);
                expect_section(ctx, "dwp_sections", &s.debug_str_offsets, SectionId::DebugStrOffsets, &m);
                expect_section(ctx, "dwp_sections", &s.debug_loc, SectionId::DebugLoc, &m);
                expect_section(ctx, "dwp_sections", &s.debug_loclists, SectionId::DebugLocLists, &m);
                expect_section(ctx, "dwp_sections", &s.debug_rnglists, SectionId::DebugRngLists, &m);
                expect_section(ctx, "dwp_sections", &s.debug_types, SectionId::DebugTypes, &m);
            } else {
                ctx.errs += 1;
            }
        }
        "dwp_load" | "dwp_unit_sections" | "dwp_unit_sections_v2" => {
            // index sections must parse: hand out real indexes for them, with different
            // geometry for the CU and the TU index
            let v2 = case.family == "dwp_unit_sections_v2";
            let cu_idx = index_bytes(v2, false);
            let tu_idx = index_bytes(v2, true);
            let empty: R = EndianSlice::new(&[], LittleEndian);
            let r: Result<DwarfPackage<R>, gimli::Error> = DwarfPackage::load(
                |id| {
                    let r = loader.load(id)?;
                    Ok(match id {
                        SectionId::DebugCuIndex => EndianSlice::new(&cu_idx, LittleEndian),
                        SectionId::DebugTuIndex => EndianSlice::new(&tu_idx, LittleEndian),
                        _ => r,
                    })
                },
                empty,
            );
            check_requests(ctx, "DwarfPackage::load", &loader.log.borrow(), 13, fail_at, r.is_err());
            if let Ok(p) = r {
                ctx.item();
                expect_section(ctx, "dwp", &p.debug_abbrev, SectionId::DebugAbbrev, &m);
                expect_section(ctx, "dwp", &p.debug_info, SectionId::DebugInfo, &m);
                expect_section(ctx, "dwp", &p.debug_line, SectionId::DebugLine, &m);
                expect_section(ctx, "dwp", &p.debug_macinfo, SectionId::DebugMacinfo, &m);
                expect_section(ctx, "dwp", &p.debug_macro, SectionId::DebugMacro, &m);
                expect_section(ctx, "dwp", &p.debug_str, SectionId::DebugStr, &m);
                expect_section(ctx, "dwp", &p.debug_str_offsets, SectionId::DebugStrOffsets, &m);
                expect_section(ctx, "dwp", &p.debug_loc, SectionId::DebugLoc, &m);
                expect_section(ctx, "dwp", &p.debug_loclists, SectionId::DebugLocLists, &m);
                expect_section(ctx, "dwp", &p.debug_rnglists, SectionId::DebugRngLists, &m);
                expect_section(ctx, "dwp", &p.debug_types, SectionId::DebugTypes, &m);
                if case.family != "dwp_load" {
                    let parent: Dwarf<R> = Dwarf::load(|id| -> Result<R, gimli::Error> { Ok(EndianSlice::new(m2.get(id), LittleEndian)) }).unwrap();
                    check_units(ctx, &p, &parent, &m, &m2, v2);
                }
            } else {
                ctx.errs += 1;
            }
        }
        "names" => {
            // An object file keyed by section *name*, as a real loader sees it: the loader maps
            // the requested id to a name through SectionId::{name, dwo_name, xcoff_name} and
            // looks the name up. Names and contents come from the harness's own table.
            for container in 0..3usize {
                let cname = ["elf", "dwo", "xcoff"][container];
                let std_of = |id: SectionId| -> Option<&'static str> {
                    let t = std_names(id);
                    match container {
                        0 => Some(t.0),
                        1 => t.1,
                        _ => t.2,
                    }
                };
                let mut file: std::collections::BTreeMap<&'static str, Vec<u8>> = Default::default();
                for id in ALL_IDS.iter() {
                    if let Some(n) = std_of(*id) {
                        file.insert(n, format!("[[{} in {}]]", n, cname).into_bytes());
                    }
                }
                let by_name = |id: SectionId| -> Result<R, gimli::Error> {
                    let n = match container {
                        0 => Some(id.name()),
                        1 => id.dwo_name(),
                        _ => id.xcoff_name(),
                    };
                    Ok(EndianSlice::new(n.and_then(|n| file.get(n)).map(|v| &v[..]).unwrap_or(&[]), LittleEndian))
                };
                let d: Dwarf<R> = Dwarf::load(by_name).unwrap();
                let want = |id: SectionId| -> &[u8] { std_of(id).and_then(|n| file.get(n)).map(|v| &v[..]).unwrap_or(&[]) };
                macro_rules! f {
                    ($f:expr, $id:expr) => {{
                        let got = $f.reader().slice();
                        ev!(ctx, "names {} {} len={}", cname, std_names($id).0, got.len());
                        if got != want($id) {
                            ctx.violate(
                                "c17_routing",
                                format!("{} file: the {} field holds {:?}, the file's section of that type is {:?}", cname, std_names($id).0, String::from_utf8_lossy(got), String::from_utf8_lossy(want($id))),
                            );
                        }
                    }};
                }
                f!(d.debug_abbrev, SectionId::DebugAbbrev);
                f!(d.debug_addr, SectionId::DebugAddr);
                f!(d.debug_aranges, SectionId::DebugAranges);
                f!(d.debug_info, SectionId::DebugInfo);
                f!(d.debug_line, SectionId::DebugLine);
                f!(d.debug_line_str, SectionId::DebugLineStr);
                f!(d.debug_macinfo, SectionId::DebugMacinfo);
                f!(d.debug_macro, SectionId::DebugMacro);
                f!(d.debug_names, SectionId::DebugNames);
                f!(d.debug_str, SectionId::DebugStr);
                f!(d.debug_str_offsets, SectionId::DebugStrOffsets);
                f!(d.debug_types, SectionId::DebugTypes);
                f!(d.ranges.debug_ranges(), SectionId::DebugRanges);
                f!(d.ranges.debug_rnglists(), SectionId::DebugRngLists);
                for id in [SectionId::DebugLoc, SectionId::DebugLocLists] {
                    let w = want(id);
                    if !w.is_empty() {
                        let got = d.locations.lookup_offset_id(ReaderOffsetId(w.as_ptr() as u64));
                        if got != Some((id, 0)) {
                            ctx.violate("c17_routing", format!("{} file: section {} is seen by `locations` as {:?}", cname, std_names(id).0, got));
                        }
                    }
                }
                // the stand-alone section types, each loaded by name
                macro_rules! one_named {
                    ($t:ident) => {{
                        let s: $t<R> = Section::load(by_name).unwrap();
                        f!(s, SectionId::$t);
                    }};
                }
                one_named!(DebugCuIndex);
                one_named!(DebugTuIndex);
                one_named!(DebugFrame);
                one_named!(EhFrame);
                one_named!(EhFrameHdr);
                one_named!(DebugPubNames);
                one_named!(DebugPubTypes);
                one_named!(DebugLoc);
                one_named!(DebugLocLists);
                one_named!(DebugRanges);
                one_named!(DebugRngLists);
                if container == 1 {
                    // a package is loaded with the .dwo names
                    let p: DwarfPackageSections<R> = DwarfPackageSections::load(by_name).unwrap();
                    f!(p.cu_index, SectionId::DebugCuIndex);
                    f!(p.tu_index, SectionId::DebugTuIndex);
                    f!(p.debug_abbrev, SectionId::DebugAbbrev);
                    f!(p.debug_info, SectionId::DebugInfo);
                    f!(p.debug_line, SectionId::DebugLine);
                    f!(p.debug_macinfo, SectionId::DebugMacinfo);
                    f!(p.debug_macro, SectionId::DebugMacro);
                    f!(p.debug_str, SectionId::DebugStr);
                    f!(p.debug_str_offsets, SectionId::DebugStrOffsets);
                    f!(p.debug_loc, SectionId::DebugLoc);
                    f!(p.debug_loclists, SectionId::DebugLocLists);
                    f!(p.debug_rnglists, SectionId::DebugRngLists);
                    f!(p.debug_types, SectionId::DebugTypes);
                }
                ctx.item();
            }
        }
        "section_load_each" => {
            macro_rules! one {
                ($t:ident) => {{
                    let before = loader.log.borrow().len();
                    let r: Result<$t<R>, gimli::Error> = Section::load(|id| loader.load(id));
                    let log = loader.log.borrow();
                    // the type name and the variant name coincide; the pairing is the harness's
                    if log.len() != before + 1 || log[before] != SectionId::$t {
                        ctx.violate("c17_requests", format!("{}::load requested {:?}", stringify!($t), log[before..].iter().map(|i| i.name()).collect::<Vec<_>>()));
                    }
                    drop(log);
                    match r {
                        Ok(s) => {
                            ctx.item();
                            expect_section(ctx, "Section::load", &s, SectionId::$t, &m);
                        }
                        Err(_) => ctx.errs += 1,
                    }
                }};
            }
            one!(DebugAbbrev);
            one!(DebugAddr);
            one!(DebugAranges);
            one!(DebugCuIndex);
            one!(DebugFrame);
            one!(EhFrame);
            one!(EhFrameHdr);
            one!(DebugInfo);
            one!(DebugLine);
            one!(DebugLineStr);
            one!(DebugLoc);
            one!(DebugLocLists);
            one!(DebugMacinfo);
            one!(DebugMacro);
            one!(DebugNames);
            one!(DebugPubNames);
            one!(DebugPubTypes);
            one!(DebugRanges);
            one!(DebugRngLists);
            one!(DebugStr);
            one!(DebugStrOffsets);
            one!(DebugTuIndex);
            one!(DebugTypes);
        }
        "borrow" => {
            // owned sections (Vec<u8>) borrowed as readers
            let owned: Result<DwarfSections<Vec<u8>>, gimli::Error> = DwarfSections::load(|id| loader.load(id).map(|r| r.slice().to_vec()));
            check_requests(ctx, "DwarfSections::<Vec>::load", &loader.log.borrow(), 16, fail_at, owned.is_err());
            if let Ok(owned) = owned {
                ctx.item();
                let sup: DwarfSections<Vec<u8>> = DwarfSections::load(|id| -> Result<Vec<u8>, gimli::Error> { Ok(m2.get(id).to_vec()) }).unwrap();
                let d = owned.borrow_with_sup(Some(&sup), |v| EndianSlice::new(&v[..], LittleEndian));
                // the owned buffers of .debug_loc / .debug_loclists, identified by their content
                // (each id has its own marker) while they are handed to a borrow closure
                let ptrs = |s: &DwarfSections<Vec<u8>>, mk: &Markers| -> (u64, u64) {
                    let (mut a, mut b) = (0u64, 0u64);
                    let _ = s.borrow(|v| {
                        if v[..] == *mk.get(SectionId::DebugLoc) {
                            a = v.as_ptr() as u64;
                        }
                        if v[..] == *mk.get(SectionId::DebugLocLists) {
                            b = v.as_ptr() as u64;
                        }
                        EndianSlice::new(&v[..], LittleEndian)
                    });
                    (a, b)
                };
                let (lp, lp2) = (ptrs(&owned, &m), ptrs(&sup, &m2));
                check_content(ctx, "borrow_with_sup main", &d, &m, lp);
                match d.sup() {
                    Some(s) => check_content(ctx, "borrow_with_sup sup", s, &m2, lp2),
                    None => ctx.violate("c17_routing", "borrow_with_sup lost the sup".into()),
                }
                // the kind of file travels with the sections (a DWO keeps being read with the
                // DWO rules after it has been borrowed)
                let mut d = d;
                d.file_type = if fail_at % 2 == 0 { DwarfFileType::Dwo } else { DwarfFileType::Main };
                #[allow(deprecated)]
                let d2 = d.borrow(|r| *r);
                if d2.file_type != d.file_type {
                    ctx.violate("c17_routing", format!("Dwarf::borrow: file type {:?} became {:?}", d.file_type, d2.file_type));
                }
                check_content(ctx, "Dwarf::borrow", &d2, &m, lp);
                match d2.sup() {
                    Some(s) => check_content(ctx, "Dwarf::borrow sup", s, &m2, lp2),
                    None => ctx.violate("c17_routing", "Dwarf::borrow lost the sup".into()),
                }
            } else {
                ctx.errs += 1;
            }
        }
        "make_dwo" => {
            let parent: Result<Dwarf<R>, gimli::Error> = Dwarf::load(|id| loader.load(id));
            let mut dwo: Dwarf<R> = Dwarf::load(|id| -> Result<R, gimli::Error> { Ok(EndianSlice::new(m2.get(id), LittleEndian)) }).unwrap();
            check_requests(ctx, "Dwarf::load(parent)", &loader.log.borrow(), 16, fail_at, parent.is_err());
            if let Ok(mut parent) = parent {
                ctx.item();
                let supm = Markers::new(3);
                parent.set_sup(Dwarf::load(|id| -> Result<R, gimli::Error> { Ok(EndianSlice::new(supm.get(id), LittleEndian)) }).unwrap());
                dwo.make_dwo(&parent);
                // everything from the dwo, except .debug_addr and .debug_ranges from the parent
                check_dwarf(ctx, "make_dwo", &dwo, &m2, &m, &m);
                if dwo.file_type != DwarfFileType::Dwo {
                    ctx.violate("c17_routing", "make_dwo: file_type is not Dwo".into());
                }
                match dwo.sup() {
                    Some(s) => expect_section(ctx, "make_dwo sup", &s.debug_str, SectionId::DebugStr, &supm),
                    None => ctx.violate("c17_routing", "make_dwo: parent's sup not inherited".into()),
                }
                // history 2: the caller marked the freshly loaded Dwarf as a dwo file first (the
                // `Dwarf::load` docs tell the user to set `file_type` after loading); what make_dwo
                // takes from the parent must not depend on that
                let mut dwo2: Dwarf<R> = Dwarf::load(|id| -> Result<R, gimli::Error> { Ok(EndianSlice::new(m2.get(id), LittleEndian)) }).unwrap();
                dwo2.file_type = DwarfFileType::Dwo;
                dwo2.make_dwo(&parent);
                check_dwarf(ctx, "make_dwo(file_type preset)", &dwo2, &m2, &m, &m);
                match dwo2.sup() {
                    Some(s) => expect_section(ctx, "make_dwo(file_type preset) sup", &s.debug_str, SectionId::DebugStr, &supm),
                    None => ctx.violate("c17_routing", "make_dwo(file_type preset): parent's sup not inherited".into()),
                }
                // history 3: a second make_dwo with another parent re-routes the pass-through sections
                let m4 = Markers::new(4);
                let parent2: Dwarf<R> = Dwarf::load(|id| -> Result<R, gimli::Error> { Ok(EndianSlice::new(m4.get(id), LittleEndian)) }).unwrap();
                dwo.make_dwo(&parent2);
                check_dwarf(ctx, "make_dwo(second parent)", &dwo, &m2, &m4, &m4);
                if dwo.sup().is_some() {
                    ctx.violate("c17_routing", "make_dwo(second parent): sup of the first parent kept".into());
                }
            } else {
                ctx.errs += 1;
            }
        }
        other => panic!("e5 family {}", other),
    }
    ctx.end();
}

fn check_content<'a>(ctx: &mut Ctx<'_>, what: &str, d: &Dwarf<R<'a>>, m: &Markers, loc_ptrs: (u64, u64)) {
    macro_rules! c {
        ($f:expr, $id:expr) => {{
            let got = $f.reader().slice();
            ev!(ctx, "{} {} len={}", what, $id.name(), got.len());
            if got != m.get($id) {
                ctx.violate("c17_routing", format!("{}: field {} holds {:?}", what, $id.name(), String::from_utf8_lossy(&got[..got.len().min(24)])));
            }
        }};
    }
    c!(d.debug_abbrev, SectionId::DebugAbbrev);
    c!(d.debug_addr, SectionId::DebugAddr);
    c!(d.debug_aranges, SectionId::DebugAranges);
    c!(d.debug_info, SectionId::DebugInfo);
    c!(d.debug_line, SectionId::DebugLine);
    c!(d.debug_line_str, SectionId::DebugLineStr);
    c!(d.debug_macinfo, SectionId::DebugMacinfo);
    c!(d.debug_macro, SectionId::DebugMacro);
    c!(d.debug_names, SectionId::DebugNames);
    c!(d.debug_str, SectionId::DebugStr);
    c!(d.debug_str_offsets, SectionId::DebugStrOffsets);
    c!(d.debug_types, SectionId::DebugTypes);
    c!(d.ranges.debug_ranges(), SectionId::DebugRanges);
    c!(d.ranges.debug_rnglists(), SectionId::DebugRngLists);
    // `locations` has no accessor: probe with the content-independent pointer identity of the
    // owned buffers the readers were borrowed from
    for (ptr, want) in [(loc_ptrs.0, SectionId::DebugLoc), (loc_ptrs.1, SectionId::DebugLocLists)] {
        let got = d.locations.lookup_offset_id(ReaderOffsetId(ptr));
        ev!(ctx, "{} locations {} -> {:?}", what, want.name(), got);
        if got != Some((want, 0)) {
            ctx.violate("c17_routing", format!("{}: the buffer loaded for {} is seen by `locations` as {:?}", what, want.name(), got));
        }
    }
}

/// Section columns of the generated indexes: (DW_SECT value, section type).
fn index_columns(v2: bool, tu: bool) -> Vec<(u32, SectionId)> {
    match (v2, tu) {
        (false, false) => vec![
            (1, SectionId::DebugInfo),
            (3, SectionId::DebugAbbrev),
            (4, SectionId::DebugLine),
            (5, SectionId::DebugLocLists),
            (6, SectionId::DebugStrOffsets),
            (7, SectionId::DebugMacro),
            (8, SectionId::DebugRngLists),
        ],
        (false, true) => vec![
            (1, SectionId::DebugInfo),
            (3, SectionId::DebugAbbrev),
            (4, SectionId::DebugLine),
            (6, SectionId::DebugStrOffsets),
        ],
        (true, false) => vec![
            (1, SectionId::DebugInfo),
            (3, SectionId::DebugAbbrev),
            (4, SectionId::DebugLine),
            (5, SectionId::DebugLoc),
            (6, SectionId::DebugStrOffsets),
            (7, SectionId::DebugMacinfo),
            (8, SectionId::DebugMacro),
        ],
        (true, true) => vec![
            (2, SectionId::DebugTypes),
            (3, SectionId::DebugAbbrev),
            (4, SectionId::DebugLine),
            (6, SectionId::DebugStrOffsets),
        ],
    }
}

/// Signatures of the two units of each index, in row order (row 1, row 2). All four
/// hash to different primary slots of a four-slot table.
fn index_sigs(tu: bool) -> [u64; 2] {
    if tu {
        [0xbbbb_0000_0000_0007, 0xbbbb_0003_0000_0004]
    } else {
        [0x1111_0000_0000_0001, 0x1111_0001_0000_0002]
    }
}

/// Window of column k in row `row` (1-based) of the CU or TU index.
fn index_window(tu: bool, row: u32, k: usize) -> (usize, usize) {
    let t = tu as usize;
    let r = (row - 1) as usize;
    // the second unit contributes nothing to its second column (a unit without, say, location
    // lists in a package where other units have them): offset as usual, size 0
    let size = if r == 1 && k == 1 { 0 } else { 3 + k + 2 * t + 4 * r };
    (1 + 2 * t + 7 * r + 3 * k, size)
}

/// A version 5 or 2 index with two units in a four-slot hash table.
fn index_bytes(v2: bool, tu: bool) -> Vec<u8> {
    let cols = index_columns(v2, tu);
    let sigs = index_sigs(tu);
    let mut a = Asm::new(false);
    if v2 {
        a.u32(2);
    } else {
        a.u16(5).u16(0);
    }
    a.u32(cols.len() as u32).u32(2).u32(4);
    let mut slots = [(0u64, 0u32); 4];
    for (r, sig) in sigs.iter().enumerate() {
        let slot = (sig & 3) as usize;
        assert_eq!(slots[slot].0, 0);
        slots[slot] = (*sig, r as u32 + 1);
    }
    for s in &slots {
        a.u64(s.0);
    }
    for s in &slots {
        a.u32(s.1);
    }
    for c in &cols {
        a.u32(c.0);
    }
    for row in 1..=2u32 {
        for k in 0..cols.len() {
            a.u32(index_window(tu, row, k).0 as u32);
        }
    }
    for row in 1..=2u32 {
        for k in 0..cols.len() {
            a.u32(index_window(tu, row, k).1 as u32);
        }
    }
    a.v
}

/// The accessor-visible bytes of one section type of a per-unit `Dwarf`.
fn unit_field<'a>(d: &Dwarf<R<'a>>, id: SectionId) -> Option<&'a [u8]> {
    Some(match id {
        SectionId::DebugAbbrev => d.debug_abbrev.reader().slice(),
        SectionId::DebugInfo => d.debug_info.reader().slice(),
        SectionId::DebugLine => d.debug_line.reader().slice(),
        SectionId::DebugStrOffsets => d.debug_str_offsets.reader().slice(),
        SectionId::DebugMacinfo => d.debug_macinfo.reader().slice(),
        SectionId::DebugMacro => d.debug_macro.reader().slice(),
        SectionId::DebugRngLists => d.ranges.debug_rnglists().reader().slice(),
        SectionId::DebugTypes => d.debug_types.reader().slice(),
        _ => return None,
    })
}

/// Every unit of both indexes, by row and by signature: each contribution of the
/// per-unit `Dwarf` is the indexed window of the package's section of the same type
/// (the window of *this* index, row and column), everything the index has no column for
/// is empty, and .debug_str / .debug_addr / .debug_ranges come from the package / parent.
fn check_units<'a>(ctx: &mut Ctx<'_>, p: &DwarfPackage<R<'a>>, parent: &Dwarf<R<'a>>, m: &Markers, m2: &Markers, v2: bool) {
    const WINDOWED: [SectionId; 10] = [
        SectionId::DebugAbbrev,
        SectionId::DebugInfo,
        SectionId::DebugLine,
        SectionId::DebugLoc,
        SectionId::DebugLocLists,
        SectionId::DebugStrOffsets,
        SectionId::DebugMacinfo,
        SectionId::DebugMacro,
        SectionId::DebugRngLists,
        SectionId::DebugTypes,
    ];
    for tu in [false, true] {
        let cols = index_columns(v2, tu);
        let sigs = index_sigs(tu);
        for row in 1..=2u32 {
            for by_sig in [false, true] {
                let what = format!(
                    "dwp v{} {}({})",
                    if v2 { 2 } else { 5 },
                    match (tu, by_sig) {
                        (false, false) => "cu_sections",
                        (false, true) => "find_cu",
                        (true, false) => "tu_sections",
                        (true, true) => "find_tu",
                    },
                    row
                );
                let sig = sigs[(row - 1) as usize];
                let r = match (tu, by_sig) {
                    (false, false) => p.cu_sections(row, parent).map(Some),
                    (false, true) => p.find_cu(gimli::DwoId(sig), parent),
                    (true, false) => p.tu_sections(row, parent).map(Some),
                    (true, true) => p.find_tu(gimli::DebugTypeSignature(sig), parent),
                };
                let d = match r {
                    Ok(Some(d)) => d,
                    Ok(None) => {
                        ctx.violate("c17_routing", format!("{}: present signature {:#x} not found", what, sig));
                        continue;
                    }
                    Err(e) => {
                        ctx.violate("c17_routing", format!("{} failed: {}", what, crate::ctx::err_name(&e)));
                        continue;
                    }
                };
                ctx.item();
                for id in WINDOWED {
                    let col = cols.iter().position(|c| c.1 == id);
                    let buf = m.get(id);
                    match (col, unit_field(&d, id)) {
                        (Some(k), Some(got)) => {
                            let (off, size) = index_window(tu, row, k);
                            let want = &buf[off..off + size];
                            ev!(ctx, "{} {} window {}+{}", what, id.name(), off, size);
                            if got != want || (size > 0 && got.as_ptr() != want.as_ptr()) {
                                ctx.violate(
                                    "c17_routing",
                                    format!("{}: {} contribution is not window {}+{} of the package's {}", what, id.name(), off, size, id.name()),
                                );
                            }
                        }
                        (None, Some(got)) => {
                            if !got.is_empty() {
                                ctx.violate("c17_routing", format!("{}: {} has no column in this index but {} bytes were contributed", what, id.name(), got.len()));
                            }
                        }
                        (Some(k), None) => {
                            // .debug_loc / .debug_loclists have no accessor: pointer identity
                            let (off, _) = index_window(tu, row, k);
                            let r = d.locations.lookup_offset_id(ReaderOffsetId(buf[off..].as_ptr() as u64));
                            ev!(ctx, "{} {} window at {} -> {:?}", what, id.name(), off, r);
                            if r != Some((id, 0)) {
                                ctx.violate("c17_routing", format!("{}: {} window resolves to {:?}", what, id.name(), r));
                            }
                        }
                        (None, None) => {
                            // no column: no byte of the package's section may be reachable
                            let r = d.locations.lookup_offset_id(ReaderOffsetId(buf[1..].as_ptr() as u64));
                            if r.is_some() {
                                ctx.violate("c17_routing", format!("{}: {} has no column but resolves to {:?}", what, id.name(), r));
                            }
                        }
                    }
                }
                expect_section(ctx, &what, &d.debug_str, SectionId::DebugStr, m);
                expect_section(ctx, &what, &d.debug_addr, SectionId::DebugAddr, m2);
                expect_section(ctx, &what, d.ranges.debug_ranges(), SectionId::DebugRanges, m2);
                if d.file_type != DwarfFileType::Dwo {
                    ctx.violate("c17_routing", format!("{}: unit is not marked Dwo", what));
                }
                if !d.debug_aranges.reader().is_empty() || !d.debug_line_str.reader().is_empty() || !d.debug_names.reader().is_empty() {
                    ctx.violate("c17_routing", format!("{}: sections absent from packages are not empty", what));
                }
            }
        }
        // a signature of the other index, and an absent one, are not found
        for sig in [index_sigs(!tu)[0], index_sigs(!tu)[1], 0x7777_0000_0000_0001] {
            let r = if tu {
                p.find_tu(gimli::DebugTypeSignature(sig), parent).map(|o| o.is_some())
            } else {
                p.find_cu(gimli::DwoId(sig), parent).map(|o| o.is_some())
            };
            ev!(ctx, "absent {:#x} in {} index -> {:?}", sig, if tu { "tu" } else { "cu" }, r.as_ref().map_err(crate::ctx::err_name));
            if !matches!(r, Ok(false)) {
                ctx.violate("c17_routing", format!("signature {:#x} is not in the {} index but the lookup returned {:?}", sig, if tu { "tu" } else { "cu" }, r.map_err(|e| crate::ctx::err_name(&e))));
            }
        }
    }
}
