//! E5 `loadersim`: the section-loader closure is gimli's object-file I/O seam. A stub
//! loader hands out a distinct marker buffer per SectionId, logs every request and can
//! fail at call k. Decides the last sentence of C17: each section type receives that
//! section's data and no other. The space is finite and enumerated exhaustively:
//! (entry point) x (failure index k in -1..=calls).

use crate::case::Case;
use crate::ctx::Ctx;
use crate::ev;
use crate::wl::asm::Asm;
use gimli::{
    DebugAbbrev, DebugAddr, DebugAranges, DebugCuIndex, DebugFrame, DebugInfo, DebugLine,
    DebugLineStr, DebugLoc, DebugLocLists, DebugMacinfo, DebugMacro, DebugNames, DebugPubNames,
    DebugPubTypes, DebugRanges, DebugRngLists, DebugStr, DebugStrOffsets, DebugTuIndex,
    DebugTypes, Dwarf, DwarfFileType, DwarfPackage, DwarfPackageSections, DwarfSections, EhFrame,
    EhFrameHdr, EndianSlice, LittleEndian, Reader, ReaderOffsetId, Section, SectionId,
};
use std::cell::RefCell;

pub const ALL_IDS: [SectionId; 23] = [
    SectionId::DebugAbbrev,
    SectionId::DebugAddr,
    SectionId::DebugAranges,
    SectionId::DebugCuIndex,
    SectionId::DebugFrame,
    SectionId::EhFrame,
    SectionId::EhFrameHdr,
    SectionId::DebugInfo,
    SectionId::DebugLine,
    SectionId::DebugLineStr,
    SectionId::DebugLoc,
    SectionId::DebugLocLists,
    SectionId::DebugMacinfo,
    SectionId::DebugMacro,
    SectionId::DebugNames,
    SectionId::DebugPubNames,
    SectionId::DebugPubTypes,
    SectionId::DebugRanges,
    SectionId::DebugRngLists,
    SectionId::DebugStr,
    SectionId::DebugStrOffsets,
    SectionId::DebugTuIndex,
    SectionId::DebugTypes,
];

/// (family, number of loader calls of a fault-free run)
pub const FAMILIES: &[(&str, u64)] = &[
    ("sections_load", 16),
    ("dwarf_load", 16),
    ("load_sup", 16),
    ("dwp_sections_load", 13),
    ("dwp_load", 13),
    ("section_load_each", 23),
    ("borrow", 16),
    ("make_dwo", 32),
    ("dwp_unit_sections", 13),
];

pub fn total_indices() -> u64 {
    FAMILIES.iter().map(|f| f.1 + 2).sum()
}

pub fn gen_case(i: u64) -> Case {
    let mut k = i;
    for (f, calls) in FAMILIES {
        let n = calls + 2; // fail_at in -1..=calls
        if k < n {
            let mut c = Case::new("e5", f);
            c.set("fail_at", k as i64 - 1);
            return c;
        }
        k -= n;
    }
    let mut c = Case::new("e5", "sections_load");
    c.set("fail_at", -1);
    c
}

type R<'a> = EndianSlice<'a, LittleEndian>;

struct Markers {
    bufs: Vec<(SectionId, Vec<u8>)>,
}

impl Markers {
    fn new(salt: u8) -> Markers {
        let mut bufs = Vec::new();
        for (k, id) in ALL_IDS.iter().enumerate() {
            let mut v = format!("<<{}#{}>>", id.name(), salt).into_bytes();
            while v.len() < 96 {
                v.push(0x40 + k as u8);
            }
            bufs.push((*id, v));
        }
        Markers { bufs }
    }
    fn get(&self, id: SectionId) -> &[u8] {
        self.bufs.iter().find(|b| b.0 == id).map(|b| &b.1[..]).unwrap()
    }
}

struct Loader<'a> {
    markers: &'a Markers,
    fail_at: i64,
    log: RefCell<Vec<SectionId>>,
}

impl<'a> Loader<'a> {
    fn load(&self, id: SectionId) -> Result<R<'a>, gimli::Error> {
        let n = self.log.borrow().len() as i64;
        self.log.borrow_mut().push(id);
        if self.fail_at >= 0 && n == self.fail_at {
            return Err(gimli::Error::Io);
        }
        Ok(EndianSlice::new(self.markers.get(id), LittleEndian))
    }
}

fn expect_section<'a, S: Section<R<'a>>>(ctx: &mut Ctx<'_>, what: &str, s: &S, m: &Markers) {
    let got = s.reader().slice();
    let want = m.get(S::id());
    ev!(ctx, "{} {} len={}", what, S::id().name(), got.len());
    if got != want || got.as_ptr() != want.as_ptr() {
        ctx.violate(
            "c17_routing",
            format!(
                "{}: field of section type {} holds {:?}",
                what,
                S::id().name(),
                String::from_utf8_lossy(&got[..got.len().min(24)])
            ),
        );
    }
}

fn expect_ptr_in(ctx: &mut Ctx<'_>, what: &str, found: Option<(SectionId, usize)>, id: SectionId) {
    ev!(ctx, "{} lookup -> {:?}", what, found);
    if found != Some((id, 0)) {
        ctx.violate("c17_routing", format!("{}: marker of {} resolved to {:?}", what, id.name(), found));
    }
}

fn check_dwarf<'a>(ctx: &mut Ctx<'_>, what: &str, d: &Dwarf<R<'a>>, m: &Markers, addr_m: &Markers, ranges_m: &Markers) {
    expect_section(ctx, what, &d.debug_abbrev, m);
    expect_section(ctx, what, &d.debug_addr, addr_m);
    expect_section(ctx, what, &d.debug_aranges, m);
    expect_section(ctx, what, &d.debug_info, m);
    expect_section(ctx, what, &d.debug_line, m);
    expect_section(ctx, what, &d.debug_line_str, m);
    expect_section(ctx, what, &d.debug_macinfo, m);
    expect_section(ctx, what, &d.debug_macro, m);
    expect_section(ctx, what, &d.debug_names, m);
    expect_section(ctx, what, &d.debug_str, m);
    expect_section(ctx, what, &d.debug_str_offsets, m);
    expect_section(ctx, what, &d.debug_types, m);
    expect_section(ctx, what, d.ranges.debug_ranges(), ranges_m);
    expect_section(ctx, what, d.ranges.debug_rnglists(), m);
    let id = |m: &Markers, s: SectionId| ReaderOffsetId(m.get(s).as_ptr() as u64);
    expect_ptr_in(ctx, what, d.locations.lookup_offset_id(id(m, SectionId::DebugLoc)), SectionId::DebugLoc);
    expect_ptr_in(ctx, what, d.locations.lookup_offset_id(id(m, SectionId::DebugLocLists)), SectionId::DebugLocLists);
    expect_ptr_in(ctx, what, d.ranges.lookup_offset_id(id(ranges_m, SectionId::DebugRanges)), SectionId::DebugRanges);
    expect_ptr_in(ctx, what, d.ranges.lookup_offset_id(id(m, SectionId::DebugRngLists)), SectionId::DebugRngLists);
    // Dwarf::lookup_offset_id routes every main section to its own id
    for s in [
        SectionId::DebugAbbrev,
        SectionId::DebugInfo,
        SectionId::DebugLine,
        SectionId::DebugLineStr,
        SectionId::DebugStr,
        SectionId::DebugStrOffsets,
        SectionId::DebugTypes,
        SectionId::DebugAranges,
    ] {
        let r = d.lookup_offset_id(id(m, s)).map(|(sup, sid, off)| (sup, sid, off));
        if r != Some((false, s, 0)) {
            ctx.violate("c17_routing", format!("{}: Dwarf::lookup_offset_id({}) = {:?}", what, s.name(), r));
        }
    }
}

fn check_requests(ctx: &mut Ctx<'_>, what: &str, log: &[SectionId], expected_calls: usize, fail_at: i64, failed: bool) {
    ev!(ctx, "{} requests={:?}", what, log.iter().map(|i| i.name()).collect::<Vec<_>>());
    let want_calls = if fail_at >= 0 && (fail_at as usize) < expected_calls { fail_at as usize + 1 } else { expected_calls };
    if log.len() != want_calls {
        ctx.violate("c17_requests", format!("{}: {} loader calls, expected {}", what, log.len(), want_calls));
    }
    let should_fail = fail_at >= 0 && (fail_at as usize) < expected_calls;
    if failed != should_fail {
        ctx.violate("c17_requests", format!("{}: returned failure={} but loader failure injected={}", what, failed, should_fail));
    }
    // each id requested at most once
    let mut seen: Vec<SectionId> = Vec::new();
    for id in log {
        if seen.contains(id) {
            ctx.violate("c17_requests", format!("{}: section {} requested twice", what, id.name()));
        }
        seen.push(*id);
    }
}

pub fn run(case: &Case, ctx: &mut Ctx<'_>) {
    let fail_at = case.knob("fail_at", -1);
    let m = Markers::new(1);
    let m2 = Markers::new(2);
    let loader = Loader { markers: &m, fail_at, log: RefCell::new(Vec::new()) };
    ctx.enter("loader");
    ctx.item();
    match case.family.as_str() {
        "sections_load" => {
            let r: Result<DwarfSections<R>, gimli::Error> = DwarfSections::load(|id| loader.load(id));
            check_requests(ctx, "DwarfSections::load", &loader.log.borrow(), 16, fail_at, r.is_err());
            if let Ok(s) = r {
                ctx.item();
                let d = s.borrow(|r| *r);
                check_dwarf(ctx, "DwarfSections::load+borrow", &d, &m, &m, &m);
            } else {
                ctx.errs += 1;
            }
        }
        "dwarf_load" => {
            let r: Result<Dwarf<R>, gimli::Error> = Dwarf::load(|id| loader.load(id));
            check_requests(ctx, "Dwarf::load", &loader.log.borrow(), 16, fail_at, r.is_err());
            if let Ok(d) = r {
                ctx.item();
                check_dwarf(ctx, "Dwarf::load", &d, &m, &m, &m);
                if d.file_type != DwarfFileType::Main || d.sup().is_some() {
                    ctx.violate("c17_routing", "Dwarf::load: not a main file without sup".into());
                }
            } else {
                ctx.errs += 1;
            }
        }
        "load_sup" => {
            let main: Dwarf<R> = Dwarf::load(|id| -> Result<R, gimli::Error> { Ok(EndianSlice::new(m2.get(id), LittleEndian)) }).unwrap();
            let mut main = main;
            let r = main.load_sup(|id| loader.load(id));
            check_requests(ctx, "Dwarf::load_sup", &loader.log.borrow(), 16, fail_at, r.is_err());
            check_dwarf(ctx, "main after load_sup", &main, &m2, &m2, &m2);
            match (r, main.sup()) {
                (Ok(()), Some(sup)) => {
                    ctx.item();
                    check_dwarf(ctx, "sup", sup, &m, &m, &m);
                    // sup strings come from the sup file
                    let id = ReaderOffsetId(m.get(SectionId::DebugStr).as_ptr() as u64);
                    let r = main.lookup_offset_id(id);
                    if r != Some((true, SectionId::DebugStr, 0)) {
                        ctx.violate("c17_routing", format!("lookup of sup .debug_str = {:?}", r));
                    }
                }
                (Err(_), None) => ctx.errs += 1,
                (a, b) => ctx.violate("c17_routing", format!("load_sup result {:?} but sup present={}", a.is_ok(), b.is_some())),
            }
        }
        "dwp_sections_load" => {
            let r: Result<DwarfPackageSections<R>, gimli::Error> = DwarfPackageSections::load(|id| loader.load(id));
            check_requests(ctx, "DwarfPackageSections::load", &loader.log.borrow(), 13, fail_at, r.is_err());
            if let Ok(s) = r {
                ctx.item();
                expect_section(ctx, "dwp_sections", &s.cu_index, &m);
                expect_section(ctx, "dwp_sections", &s.tu_index, &m);
                expect_section(ctx, "dwp_sections", &s.debug_abbrev, &m);
                expect_section(ctx, "dwp_sections", &s.debug_info, &m);
                expect_section(ctx, "dwp_sections", &s.debug_line, &m);
                expect_section(ctx, "dwp_sections", &s.debug_macinfo, &m);
                expect_section(ctx, "dwp_sections", &s.debug_macro, &m);
                expect_section(ctx, "dwp_sections", &s.debug_str, &m);
                expect_section(ctx, "dwp_sections", &s.debug_str_offsets, &m);
                expect_section(ctx, "dwp_sections", &s.debug_loc, &m);
                expect_section(ctx, "dwp_sections", &s.debug_loclists, &m);
                expect_section(ctx, "dwp_sections", &s.debug_rnglists, &m);
                expect_section(ctx, "dwp_sections", &s.debug_types, &m);
            } else {
                ctx.errs += 1;
            }
        }
        "dwp_load" | "dwp_unit_sections" => {
            // index sections must parse: hand out real (empty-table) indexes for them
            let idx = index_bytes();
            let empty: R = EndianSlice::new(&[], LittleEndian);
            let r: Result<DwarfPackage<R>, gimli::Error> = DwarfPackage::load(
                |id| {
                    let r = loader.load(id)?;
                    Ok(match id {
                        SectionId::DebugCuIndex | SectionId::DebugTuIndex => EndianSlice::new(&idx, LittleEndian),
                        _ => r,
                    })
                },
                empty,
            );
            check_requests(ctx, "DwarfPackage::load", &loader.log.borrow(), 13, fail_at, r.is_err());
            if let Ok(p) = r {
                ctx.item();
                expect_section(ctx, "dwp", &p.debug_abbrev, &m);
                expect_section(ctx, "dwp", &p.debug_info, &m);
                expect_section(ctx, "dwp", &p.debug_line, &m);
                expect_section(ctx, "dwp", &p.debug_macinfo, &m);
                expect_section(ctx, "dwp", &p.debug_macro, &m);
                expect_section(ctx, "dwp", &p.debug_str, &m);
                expect_section(ctx, "dwp", &p.debug_str_offsets, &m);
                expect_section(ctx, "dwp", &p.debug_loc, &m);
                expect_section(ctx, "dwp", &p.debug_loclists, &m);
                expect_section(ctx, "dwp", &p.debug_rnglists, &m);
                expect_section(ctx, "dwp", &p.debug_types, &m);
                if case.family == "dwp_unit_sections" {
                    // a unit fetched from the package: every contribution is the indexed
                    // window of the package's own section; addr/ranges/sup come from the parent
                    let parent: Dwarf<R> = Dwarf::load(|id| -> Result<R, gimli::Error> { Ok(EndianSlice::new(m2.get(id), LittleEndian)) }).unwrap();
                    match p.cu_sections(1, &parent) {
                        Ok(d) => {
                            let win = |id: SectionId, k: usize| -> (&[u8], usize, usize) { (m.get(id), 4 * (k + 1), 8 + k) };
                            let cols: [(SectionId, &[u8]); 7] = [
                                (SectionId::DebugInfo, d.debug_info.reader().slice()),
                                (SectionId::DebugAbbrev, d.debug_abbrev.reader().slice()),
                                (SectionId::DebugLine, d.debug_line.reader().slice()),
                                (SectionId::DebugLocLists, &[]),
                                (SectionId::DebugStrOffsets, d.debug_str_offsets.reader().slice()),
                                (SectionId::DebugMacro, d.debug_macro.reader().slice()),
                                (SectionId::DebugRngLists, d.ranges.debug_rnglists().reader().slice()),
                            ];
                            for (k, (id, got)) in cols.iter().enumerate() {
                                let (buf, off, size) = win(*id, k);
                                if *id == SectionId::DebugLocLists {
                                    let r = d.locations.lookup_offset_id(ReaderOffsetId(buf[off..].as_ptr() as u64));
                                    if r != Some((SectionId::DebugLocLists, 0)) {
                                        ctx.violate("c17_routing", format!("dwp unit: .debug_loclists window resolves to {:?}", r));
                                    }
                                    continue;
                                }
                                let want = &buf[off..off + size];
                                ev!(ctx, "dwp unit {} window {}+{}", id.name(), off, size);
                                if *got != want || got.as_ptr() != want.as_ptr() {
                                    ctx.violate("c17_routing", format!("dwp unit: {} contribution is not window {}+{} of the package's {}", id.name(), off, size, id.name()));
                                }
                            }
                            expect_section(ctx, "dwp unit", &d.debug_str, &m);
                            expect_section(ctx, "dwp unit", &d.debug_addr, &m2);
                            expect_section(ctx, "dwp unit", d.ranges.debug_ranges(), &m2);
                            if d.file_type != DwarfFileType::Dwo {
                                ctx.violate("c17_routing", "dwp unit is not marked Dwo".into());
                            }
                            if !d.debug_aranges.reader().is_empty() || !d.debug_line_str.reader().is_empty() || !d.debug_names.reader().is_empty() {
                                ctx.violate("c17_routing", "dwp unit: sections absent from packages are not empty".into());
                            }
                        }
                        Err(e) => ctx.violate("c17_routing", format!("cu_sections(1) failed: {:?}", crate::ctx::err_name(&e))),
                    }
                }
            } else {
                ctx.errs += 1;
            }
        }
        "section_load_each" => {
            macro_rules! one {
                ($t:ident) => {{
                    let before = loader.log.borrow().len();
                    let r: Result<$t<R>, gimli::Error> = Section::load(|id| loader.load(id));
                    let log = loader.log.borrow();
                    if log.len() != before + 1 || log[before] != <$t<R> as Section<R>>::id() {
                        ctx.violate("c17_requests", format!("{}::load requested {:?}", stringify!($t), log[before..].iter().map(|i| i.name()).collect::<Vec<_>>()));
                    }
                    drop(log);
                    match r {
                        Ok(s) => {
                            ctx.item();
                            expect_section(ctx, "Section::load", &s, &m);
                        }
                        Err(_) => ctx.errs += 1,
                    }
                }};
            }
            one!(DebugAbbrev);
            one!(DebugAddr);
            one!(DebugAranges);
            one!(DebugCuIndex);
            one!(DebugFrame);
            one!(EhFrame);
            one!(EhFrameHdr);
            one!(DebugInfo);
            one!(DebugLine);
            one!(DebugLineStr);
            one!(DebugLoc);
            one!(DebugLocLists);
            one!(DebugMacinfo);
            one!(DebugMacro);
            one!(DebugNames);
            one!(DebugPubNames);
            one!(DebugPubTypes);
            one!(DebugRanges);
            one!(DebugRngLists);
            one!(DebugStr);
            one!(DebugStrOffsets);
            one!(DebugTuIndex);
            one!(DebugTypes);
        }
        "borrow" => {
            // owned sections (Vec<u8>) borrowed as readers
            let owned: Result<DwarfSections<Vec<u8>>, gimli::Error> = DwarfSections::load(|id| loader.load(id).map(|r| r.slice().to_vec()));
            check_requests(ctx, "DwarfSections::<Vec>::load", &loader.log.borrow(), 16, fail_at, owned.is_err());
            if let Ok(owned) = owned {
                ctx.item();
                let sup: DwarfSections<Vec<u8>> = DwarfSections::load(|id| -> Result<Vec<u8>, gimli::Error> { Ok(m2.get(id).to_vec()) }).unwrap();
                let d = owned.borrow_with_sup(Some(&sup), |v| EndianSlice::new(&v[..], LittleEndian));
                check_content(ctx, "borrow_with_sup main", &d, &m);
                match d.sup() {
                    Some(s) => check_content(ctx, "borrow_with_sup sup", s, &m2),
                    None => ctx.violate("c17_routing", "borrow_with_sup lost the sup".into()),
                }
                #[allow(deprecated)]
                let d2 = d.borrow(|r| *r);
                check_content(ctx, "Dwarf::borrow", &d2, &m);
                match d2.sup() {
                    Some(s) => check_content(ctx, "Dwarf::borrow sup", s, &m2),
                    None => ctx.violate("c17_routing", "Dwarf::borrow lost the sup".into()),
                }
            } else {
                ctx.errs += 1;
            }
        }
        "make_dwo" => {
            let parent: Result<Dwarf<R>, gimli::Error> = Dwarf::load(|id| loader.load(id));
            let mut dwo: Dwarf<R> = Dwarf::load(|id| -> Result<R, gimli::Error> { Ok(EndianSlice::new(m2.get(id), LittleEndian)) }).unwrap();
            check_requests(ctx, "Dwarf::load(parent)", &loader.log.borrow(), 16, fail_at, parent.is_err());
            if let Ok(mut parent) = parent {
                ctx.item();
                let supm = Markers::new(3);
                parent.set_sup(Dwarf::load(|id| -> Result<R, gimli::Error> { Ok(EndianSlice::new(supm.get(id), LittleEndian)) }).unwrap());
                dwo.make_dwo(&parent);
                // everything from the dwo, except .debug_addr and .debug_ranges from the parent
                check_dwarf(ctx, "make_dwo", &dwo, &m2, &m, &m);
                if dwo.file_type != DwarfFileType::Dwo {
                    ctx.violate("c17_routing", "make_dwo: file_type is not Dwo".into());
                }
                match dwo.sup() {
                    Some(s) => expect_section(ctx, "make_dwo sup", &s.debug_str, &supm),
                    None => ctx.violate("c17_routing", "make_dwo: parent's sup not inherited".into()),
                }
            } else {
                ctx.errs += 1;
            }
        }
        other => panic!("e5 family {}", other),
    }
    ctx.end();
}

fn check_content<'a>(ctx: &mut Ctx<'_>, what: &str, d: &Dwarf<R<'a>>, m: &Markers) {
    macro_rules! c {
        ($f:expr, $id:expr) => {{
            let got = $f.reader().slice();
            ev!(ctx, "{} {} len={}", what, $id.name(), got.len());
            if got != m.get($id) {
                ctx.violate("c17_routing", format!("{}: field {} holds {:?}", what, $id.name(), String::from_utf8_lossy(&got[..got.len().min(24)])));
            }
        }};
    }
    c!(d.debug_abbrev, SectionId::DebugAbbrev);
    c!(d.debug_addr, SectionId::DebugAddr);
    c!(d.debug_aranges, SectionId::DebugAranges);
    c!(d.debug_info, SectionId::DebugInfo);
    c!(d.debug_line, SectionId::DebugLine);
    c!(d.debug_line_str, SectionId::DebugLineStr);
    c!(d.debug_macinfo, SectionId::DebugMacinfo);
    c!(d.debug_macro, SectionId::DebugMacro);
    c!(d.debug_names, SectionId::DebugNames);
    c!(d.debug_str, SectionId::DebugStr);
    c!(d.debug_str_offsets, SectionId::DebugStrOffsets);
    c!(d.debug_types, SectionId::DebugTypes);
    c!(d.ranges.debug_ranges(), SectionId::DebugRanges);
    c!(d.ranges.debug_rnglists(), SectionId::DebugRngLists);
    for (sid, want_id) in [(SectionId::DebugLoc, SectionId::DebugLoc), (SectionId::DebugLocLists, SectionId::DebugLocLists)] {
        // locations has no accessor: probe with the content-independent pointer identity
        let _ = (sid, want_id);
    }
}

/// A v5 index with one unit and seven section columns; row 1 gives column k the window
/// (offset 4*(k+1), size 8+k).
fn index_bytes() -> Vec<u8> {
    let mut a = Asm::new(false);
    a.u16(5).u16(0).u32(7).u32(1).u32(2);
    a.u64(0x1234).u64(0);
    a.u32(1).u32(0);
    for s in [1u32, 3, 4, 5, 6, 7, 8] {
        a.u32(s);
    }
    for k in 0..7u32 {
        a.u32(4 * (k + 1));
    }
    for k in 0..7u32 {
        a.u32(8 + k);
    }
    a.v
}
