//! E4 `capsim` (C06, partial): resource exhaustion injected through the
//! `UnwindContextStorage` seam. Each generated CIE/FDE program is evaluated on unbounded
//! storage (Vec) and on every capacity pair of a ladder; oracle for a limited run:
//!  (a) every row it yields before its first capacity error equals the unbounded run's,
//!  (b) where it departs from the unbounded run the error is StackFull or
//!      TooManyRegisterRules and nothing else,
//!  (c) it fails iff a small resource model (stack depth / live register sets computed from
//!      the decoded instruction list; bookkeeping only, no CFA semantics) says that peak
//!      use exceeds the capacity, with the predicted error kind,
//!  (d) rows of the unbounded run are contiguous, non-decreasing and end at the FDE's end.

use super::Tier;
use crate::case::Case;
use crate::ctx::{Ctx, LoopGuard};
use crate::ev;
use crate::rng::{mix, tag, Rng};
use crate::wl::asm::{Asm, TEXT_ADDR};
use gimli::{
    BaseAddresses, CallFrameInstruction, EhFrame, EndianSlice, FrameDescriptionEntry, Register, RegisterRule,
    RunTimeEndian, UnwindContext, UnwindContextStorage, UnwindSection, UnwindTableRow,
};
use std::collections::BTreeSet;

#[derive(Debug, Clone, Copy, PartialEq, Eq)]
pub struct Arr<const ROWS: usize, const RULES: usize>;
impl<const ROWS: usize, const RULES: usize> UnwindContextStorage<usize> for Arr<ROWS, RULES> {
    type Rules = [(Register, RegisterRule<usize>); RULES];
    type Stack = [UnwindTableRow<usize, Self>; ROWS];
}

#[derive(Debug, Clone, Copy, PartialEq, Eq)]
pub struct Boxed<const ROWS: usize, const RULES: usize>;
impl<const ROWS: usize, const RULES: usize> UnwindContextStorage<usize> for Boxed<ROWS, RULES> {
    type Rules = Box<[(Register, RegisterRule<usize>); RULES]>;
    type Stack = Box<[UnwindTableRow<usize, Self>; ROWS]>;
}

use crate::drv::cfi::Unbounded;

pub const ROWS_LADDER: [usize; 5] = [1, 2, 3, 4, 5];
pub const RULES_LADDER: [usize; 6] = [1, 2, 4, 191, 192, 193];

// ---------------------------------------------------------------------------------------
// generation: programs over a well-behaved alphabet (the only possible failures are
// capacity failures, PopWithEmptyStack and restore-inside-a-CIE, which the resource model
// understands)

/// How the location counter is driven in an FDE program, and what the generator emitted
/// (the reference for the row-boundary model: [0, delta] advance, [1, address, indirect] set_loc).
pub struct LocGen {
    pub wide: bool,
    /// pointer encoding of DW_CFA_set_loc operands (the CIE's 'R' augmentation), if set_loc is used
    pub setloc_enc: Option<u8>,
    pub asz: u8,
    pub init: u64,
    pub range: u64,
    pub events: Vec<Vec<i64>>,
}

fn enc_ptr(a: &mut Asm, enc: u8, v: u64, asz: u8) {
    match enc & 0x0f {
        0x01 => {
            a.uleb(v);
        }
        0x02 => {
            a.u16(v as u16);
        }
        0x03 => {
            a.u32(v as u32);
        }
        0x04 => {
            a.u64(v);
        }
        _ => {
            a.uint(v, asz as usize);
        }
    }
}

fn emit(a: &mut Asm, rng: &mut Rng, n: usize, regs: u64, in_cie: bool, depth_bias: u64, lg: &mut LocGen) {
    let wide = lg.wide;
    for _ in 0..n {
        let r = rng.below(regs);
        match rng.below(16) {
            0..=5 => {
                // a register rule
                match rng.below(5) {
                    0 => {
                        a.u8(0x05).uleb(r).uleb(rng.below(16));
                    }
                    1 => {
                        a.u8(0x14).uleb(r).uleb(rng.below(16));
                    }
                    2 => {
                        a.u8(0x09).uleb(r).uleb(rng.below(32));
                    }
                    3 => {
                        a.u8(*rng.pick(&[0x07u8, 0x08])).uleb(r);
                    }
                    _ => {
                        a.u8(0x10).uleb(r).uleb(2).u8(0x70).u8(0);
                    }
                }
            }
            6 => {
                if !in_cie || rng.chance(1, 8) {
                    a.u8(0x06).uleb(r); // restore_extended
                }
            }
            7 | 8 => {
                if rng.below(4) < depth_bias {
                    a.u8(0x0a); // remember_state
                } else {
                    a.u8(0x0b);
                }
            }
            9 => {
                a.u8(0x0a);
            }
            10 => {
                a.u8(0x0b);
            }
            11 => {
                a.u8(0x0c).uleb(rng.below(32)).uleb(rng.below(64));
            }
            12 => {
                a.u8(0x0e).uleb(rng.below(64));
            }
            13 => {
                a.u8(0x0d).uleb(rng.below(32));
            }
            14 => {
                if !in_cie && wide && lg.setloc_enc.is_some() && rng.chance(1, 3) {
                    // DW_CFA_set_loc with the CIE's pointer encoding: forwards, backwards, past
                    // the end of the FDE
                    let enc = lg.setloc_enc.unwrap();
                    let v = match rng.below(5) {
                        0 => lg.init.wrapping_sub(rng.below(8)),
                        1 => lg.init + lg.range + rng.below(8),
                        _ => lg.init + rng.below(lg.range + 1),
                    };
                    // what the chosen format can hold is what is encoded
                    let v = match enc & 0x0f {
                        0x02 => v & 0xffff,
                        0x03 => v & 0xffff_ffff,
                        0x00 if lg.asz < 8 => v & ((1u64 << (8 * lg.asz as u32)) - 1),
                        _ => v,
                    };
                    a.u8(0x01);
                    enc_ptr(a, enc, v, lg.asz);
                    lg.events.push(vec![1, v as i64, (enc & 0x80 != 0) as i64]);
                } else if !in_cie && wide {
                    // every advance encoding, with deltas that reach or pass the top of the
                    // address space once factored
                    let d = match rng.below(6) {
                        0 => 0,
                        1 => rng.below(0x40),
                        2 => 0x5555_5556,
                        3 => 0xffff_ffff,
                        4 => rng.below(1 << 16),
                        _ => rng.below(1 << 32),
                    };
                    match rng.below(4) {
                        0 => {
                            a.u8(0x40 | (d & 0x3f) as u8);
                            lg.events.push(vec![0, (d & 0x3f) as i64]);
                        }
                        1 => {
                            a.u8(0x02).u8(d as u8);
                            lg.events.push(vec![0, (d & 0xff) as i64]);
                        }
                        2 => {
                            a.u8(0x03).u16(d as u16);
                            lg.events.push(vec![0, (d & 0xffff) as i64]);
                        }
                        _ => {
                            a.u8(0x04).u32(d as u32);
                            lg.events.push(vec![0, (d & 0xffff_ffff) as i64]);
                        }
                    }
                } else if !in_cie {
                    let d = 1 + rng.below(3);
                    a.u8(0x40 | d as u8); // advance_loc
                    lg.events.push(vec![0, d as i64]);
                }
            }
            _ => {
                a.u8(0x2e).uleb(rng.below(64)); // GNU_args_size
            }
        }
    }
}

pub fn gen_case(_tier: Tier, master: u64, i: u64) -> Case {
    let mut rng = Rng::new(mix(master, tag("e4"), i));
    let mut c = Case::new("e4", "cap");
    let be = rng.chance(1, 4);
    c.set("be", be as i64);
    // register pool: small (rule sets stay small) or large (approaches 192)
    let regs = *rng.pick(&[3u64, 5, 8, 200, 200, 400]);
    let mut a = Asm::new(be);
    // row-boundary variant: address sizes 2/4/8, code alignment factors up to 2^63, an initial
    // location that may sit just below the top of the address space, wide advances
    let wide = rng.chance(1, 3);
    let asz: u8 = if wide { *rng.pick(&[8u8, 4, 4, 2]) } else { 8 };
    let mask = if asz >= 8 { u64::MAX } else { (1u64 << (8 * asz as u32)) - 1 };
    let caf: u64 = if wide { *rng.pick(&[1u64, 1, 2, 3, 4, 0x100, 0x1_0000, 0x5555_5556, 0x1_0000_0000, 1 << 63]) } else { 1 };
    let range: u64 = if wide { *rng.pick(&[0x1000u64, 0x40, 0xf000]) } else { 0x1000 };
    // a third of the wide programs use DW_CFA_set_loc; its operand (and the FDE's own pointers)
    // then carry the pointer encoding of a 'zR' CIE, possibly with the indirect bit
    let setloc_enc: Option<u8> = if wide && asz >= 4 && rng.chance(1, 3) {
        Some(*rng.pick(&[0x00u8, 0x01, 0x02, 0x03, 0x04, 0x03, 0x80, 0x83, 0x84]))
    } else {
        None
    };
    let init: u64 = if !wide {
        TEXT_ADDR
    } else if setloc_enc.is_some() {
        0x1000
    } else {
        match rng.below(3) {
            0 => 0x1000,
            1 => mask - range - rng.below(0x20),
            _ => (mask / 2) & !0xf,
        }
    };
    c.set("addr_size", asz as i64);
    c.set("init_addr", init as i64);
    let mut lg = LocGen { wide, setloc_enc, asz, init, range, events: Vec::new() };
    let mut no_loc = LocGen { wide: false, setloc_enc: None, asz, init, range, events: Vec::new() };
    let tok = a.begin_len(false);
    match setloc_enc {
        Some(enc) => {
            a.u32(0).u8(1).cstr(b"zR").uleb(caf).sleb(-8).u8(16).uleb(1).u8(enc);
        }
        None => {
            a.u32(0).u8(1).cstr(b"").uleb(caf).sleb(-8).u8(16);
        }
    }
    let ncie = *rng.pick(&[0usize, 1, 2, 3, 6]);
    let cie_n = if regs >= 200 && rng.bool() { 200 } else { ncie };
    emit(&mut a, &mut rng, cie_n, regs, true, 1, &mut no_loc);
    a.align(8);
    a.end_len(tok, 0);
    let tok = a.begin_len(false);
    let ptr = a.len();
    a.u32(ptr as u32);
    match setloc_enc {
        Some(enc) => {
            // pc_begin in the CIE's encoding, the range in its format; no augmentation data
            enc_ptr(&mut a, enc, init, asz);
            enc_ptr(&mut a, enc, range, asz);
            a.uleb(0);
        }
        None => {
            a.uint(init, asz as usize).uint(range, asz as usize);
        }
    }
    let fde_n = if regs >= 200 { 20 + rng.usize(400) } else { rng.usize(30) };
    let bias = rng.below(4);
    if rng.chance(1, 5) {
        // boundary program: exactly R distinct registers and a remember/restore nest of depth D
        // ("limits reached exactly and exceeded by one")
        let r = *rng.pick(&[190u64, 191, 192, 193, 194]);
        let d = *rng.pick(&[1usize, 2, 3, 4, 5]);
        for k in 0..d {
            a.u8(0x0a);
            a.u8(0x05).uleb(k as u64).uleb(1);
        }
        for reg in 0..r {
            a.u8(0x05).uleb(reg).uleb(reg % 16);
        }
        for _ in 0..d {
            a.u8(0x0b).u8(0x41);
            lg.events.push(vec![0, 1]);
        }
        c.note = format!("boundary_r{}_d{}", r, d);
    } else {
        emit(&mut a, &mut rng, fde_n, regs, false, bias, &mut lg);
        c.note = format!("regs{}{}", regs, if wide { "+wide" } else { "" });
    }
    a.align(8);
    a.end_len(tok, 0);
    a.u32(0);
    c.put("eh_frame", a.v);
    // what the generator emitted is the reference for the row-boundary model
    c.steps = lg.events;
    c.set("has_events", 1);
    c
}

// ---------------------------------------------------------------------------------------
// resource model

#[derive(Debug, Clone, Copy, PartialEq, Eq)]
pub enum Predict {
    NeverFails,
    StackFull,
    TooManyRegisterRules,
    /// CIE initialisation fails for a non-capacity reason before any capacity problem
    InitAborts,
}

#[derive(Clone)]
enum Initial {
    Unset,
    NoRules,
    Single(u16),
    Multi,
}

fn set_reg(i: &CallFrameInstruction<usize>) -> Option<u16> {
    use CallFrameInstruction::*;
    Some(match i {
        Undefined { register } | SameValue { register } => register.0,
        Offset { register, .. } | OffsetExtendedSf { register, .. } | ValOffset { register, .. } | ValOffsetSf { register, .. } => register.0,
        Register { dest_register, .. } => dest_register.0,
        Expression { register, .. } | ValExpression { register, .. } => register.0,
        _ => return None,
    })
}

pub fn predict(cie: &[CallFrameInstruction<usize>], fde: &[CallFrameInstruction<usize>], rows_cap: usize, rules_cap: usize) -> Predict {
    let mut stack: Vec<BTreeSet<u16>> = vec![BTreeSet::new()];
    let mut initial = Initial::Unset;
    // returns Err(Predict) to stop
    fn apply(
        i: &CallFrameInstruction<usize>,
        stack: &mut Vec<BTreeSet<u16>>,
        initial: &Initial,
        in_cie: bool,
        rows_cap: usize,
        rules_cap: usize,
    ) -> Result<(), Option<Predict>> {
        use CallFrameInstruction::*;
        let set = |stack: &mut Vec<BTreeSet<u16>>, r: u16| -> Result<(), Option<Predict>> {
            let top = stack.last_mut().unwrap();
            if !top.contains(&r) {
                if top.len() >= rules_cap {
                    return Err(Some(Predict::TooManyRegisterRules));
                }
                top.insert(r);
            }
            Ok(())
        };
        if let Some(r) = set_reg(i) {
            return set(stack, r);
        }
        match i {
            Restore { register } => {
                let r = register.0;
                let has = match initial {
                    Initial::Unset => return Err(None), // invalid context (inside a CIE)
                    Initial::NoRules => false,
                    Initial::Single(x) => *x == r,
                    Initial::Multi => stack[0].contains(&r),
                };
                if has {
                    set(stack, r)
                } else {
                    stack.last_mut().unwrap().remove(&r);
                    Ok(())
                }
            }
            RememberState => {
                if stack.len() >= rows_cap {
                    return Err(Some(Predict::StackFull));
                }
                let top = stack.last().unwrap().clone();
                stack.push(top);
                Ok(())
            }
            RestoreState => {
                let min = if matches!(initial, Initial::Multi) { 2 } else { 1 };
                if stack.len() <= min {
                    return Err(None); // PopWithEmptyStack
                }
                stack.pop();
                Ok(())
            }
            _ => {
                let _ = in_cie;
                Ok(())
            }
        }
    }
    for i in cie {
        match apply(i, &mut stack, &initial, true, rows_cap, rules_cap) {
            Ok(()) => {}
            Err(Some(p)) => return p,
            Err(None) => return Predict::InitAborts,
        }
    }
    // save_initial_rules
    let n = stack.last().unwrap().len();
    if n >= 2 {
        if stack.len() >= rows_cap {
            return Predict::StackFull;
        }
        let top = stack.last().unwrap().clone();
        stack.insert(0, top);
        initial = Initial::Multi;
    } else if n == 1 {
        initial = Initial::Single(*stack.last().unwrap().iter().next().unwrap());
    } else {
        initial = Initial::NoRules;
    }
    for i in fde {
        match apply(i, &mut stack, &initial, false, rows_cap, rules_cap) {
            Ok(()) => {}
            Err(Some(p)) => return p,
            Err(None) => {} // the failed instruction has no effect; an error-ignoring caller goes on
        }
    }
    Predict::NeverFails
}

// ---------------------------------------------------------------------------------------
// execution

type R<'a> = EndianSlice<'a, RunTimeEndian>;

fn row_string<S: UnwindContextStorage<usize>>(row: &UnwindTableRow<usize, S>) -> String {
    let mut regs: Vec<String> = row.registers().map(|(r, rule)| format!("{}={:?}", r.0, rule)).collect();
    regs.sort();
    format!("row {:#x}..{:#x} cfa={:?} args={} [{}]", row.start_address(), row.end_address(), row.cfa(), row.saved_args_size(), regs.join(","))
}

/// Event stream of one storage: "row ..." / "err <Kind>" lines.
fn stream<'a, S: UnwindContextStorage<usize>>(eh: &EhFrame<R<'a>>, bases: &BaseAddresses, fde: &FrameDescriptionEntry<R<'a>>, n: usize) -> Vec<String> {
    let mut out = Vec::new();
    let mut uctx: UnwindContext<usize, S> = UnwindContext::new_in();
    match fde.rows(eh, bases, &mut uctx) {
        Ok(mut t) => {
            let mut k = 0;
            loop {
                k += 1;
                if k > 4 * n + 64 {
                    out.push("unbounded".into());
                    break;
                }
                match t.next_row() {
                    Ok(Some(r)) => out.push(row_string(r)),
                    Ok(None) => break,
                    Err(e) => out.push(format!("err {}", crate::ctx::err_name(&e))),
                }
            }
        }
        Err(e) => out.push(format!("err {}", crate::ctx::err_name(&e))),
    }
    // second walk: stop at the first failing next_row and ask the table for its current row.
    // A row is current only after a successful next_row; after a failure (capacity or other)
    // there is none - a half-built row handed out here would be a silently wrong row.
    let mut uctx: UnwindContext<usize, S> = UnwindContext::new_in();
    if let Ok(mut t) = fde.rows(eh, bases, &mut uctx) {
        let mut k = 0;
        let failed = loop {
            k += 1;
            if k > 4 * n + 64 {
                break false;
            }
            match t.next_row() {
                Ok(Some(_)) => {}
                Ok(None) => break false,
                Err(_) => break true,
            }
        };
        if failed {
            if let Some(r) = t.into_current_row() {
                out.push(format!("current_row_after_error {}", row_string(r)));
            }
        }
    }
    out
}

macro_rules! ladder_streams {
    ($eh:expr, $bases:expr, $fde:expr, $n:expr, $out:expr; $( ($rows:literal, $rules:literal, $kind:ident) ),* ) => {
        $( $out.push(($rows, $rules, stringify!($kind), stream::<$kind<$rows, $rules>>($eh, $bases, $fde, $n))); )*
    };
}

pub fn run(case: &Case, ctx: &mut Ctx<'_>) {
    let endian = crate::drv::endian_of(case);
    let bytes = case.sec("eh_frame");
    let n = bytes.len();
    let mut eh = EhFrame::from(EndianSlice::new(bytes, endian));
    let asz = case.knob("addr_size", 8) as u8;
    eh.set_address_size(asz);
    let init = case.knob("init_addr", TEXT_ADDR as i64) as u64;
    let bases = BaseAddresses::default().set_eh_frame(0);
    ctx.enter("cap.fde_for_address");
    let fde = match eh.fde_for_address(&bases, init, |s, b, o| s.cie_from_offset(b, o)) {
        Ok(f) => f,
        Err(e) => {
            ctx.err(&e);
            return;
        }
    };
    // decoded instruction lists for the resource model
    let mut cie_ins = Vec::new();
    let mut it = fde.cie().instructions(&eh, &bases);
    let mut guard = LoopGuard::new(ctx.iter_bound(n));
    while guard.step(ctx) {
        match it.next() {
            Ok(Some(i)) => cie_ins.push(i),
            _ => break,
        }
    }
    let mut fde_ins = Vec::new();
    let mut it = fde.instructions(&eh, &bases);
    let mut guard = LoopGuard::new(ctx.iter_bound(n));
    while guard.step(ctx) {
        match it.next() {
            Ok(Some(i)) => fde_ins.push(i),
            _ => break,
        }
    }
    ev!(ctx, "program cie={} fde={} ({})", cie_ins.len(), fde_ins.len(), case.note);
    ctx.item();
    ctx.enter("cap.unbounded");
    let u = stream::<Unbounded>(&eh, &bases, &fde, n);
    if let Some(last) = u.last().filter(|s| s.starts_with("current_row_after_error")) {
        ctx.violate("c06_row_after_error", format!("unbounded storage: into_current_row after a failed next_row: `{}`", last));
        return;
    }
    for l in u.iter().take(40) {
        ev!(ctx, "U {}", l);
    }
    // (d') row boundaries against a bookkeeping model of the location counter: every
    //      DW_CFA_advance_loc* closes a row at start + delta * code_alignment_factor, or is
    //      refused with AddressOverflow when that passes the top of the address space; the last
    //      row ends at the FDE's end. (No CFA / register semantics involved.)
    let mut within_fde = true;
    if !(u.len() == 1 && u[0].starts_with("err ")) {
        let mask = if asz >= 8 { u64::MAX } else { (1u64 << (8 * asz as u32)) - 1 };
        let caf = fde.cie().code_alignment_factor();
        let mut want: Vec<String> = Vec::new();
        let mut cur = fde.initial_address();
        // the location-counter events as the *generator* emitted them (E4 inputs are never
        // corrupted), so that the decoder is judged too
        let mut events: Vec<Vec<i64>> = case.steps.clone();
        if case.knob("has_events", 0) == 0 {
            events = fde_ins
                .iter()
                .filter_map(|i| match i {
                    CallFrameInstruction::AdvanceLoc { delta } => Some(vec![0, *delta as i64]),
                    _ => None,
                })
                .collect();
        }
        for ev_ in &events {
            if ev_[0] == 0 {
                // delta * code_alignment_factor is an address advance: a product that does not
                // fit 64 bits is past the top of every address space, like a sum that is
                let adv = (ev_[1] as u64).checked_mul(caf);
                match adv.and_then(|adv| cur.checked_add(adv)).filter(|x| *x <= mask) {
                    Some(next) => {
                        want.push(format!("row {:#x}..{:#x}", cur, next));
                        cur = next;
                    }
                    None => {
                        want.push("err AddressOverflow".into());
                        ctx.probe("cap_advance_overflow");
                    }
                }
            } else {
                let (addr, indirect) = (ev_[1] as u64, ev_[2] != 0);
                if indirect {
                    // the operand names a slot that holds the address: without memory access the
                    // location is unknown; the decoder refuses it and the program ends there
                    want.push("err UnsupportedIndirectPointer".into());
                    ctx.probe("cap_setloc_indirect");
                    break;
                }
                if addr < cur {
                    want.push("err InvalidCfiSetLoc".into());
                    ctx.probe("cap_setloc_backwards");
                } else {
                    want.push(format!("row {:#x}..{:#x}", cur, addr));
                    cur = addr;
                    ctx.probe("cap_setloc");
                }
            }
        }
        within_fde = cur <= fde.end_address() && fde.end_address() >= fde.initial_address();
        want.push(format!("row {:#x}..{:#x}", cur, fde.end_address()));
        let got: Vec<String> = u
            .iter()
            .filter(|l| l.starts_with("row ") || matches!(l.as_str(), "err AddressOverflow" | "err UnsupportedIndirectPointer" | "err InvalidCfiSetLoc"))
            .map(|l| l.split(" cfa=").next().unwrap_or("").to_string())
            .collect();
        if got != want {
            let k = got.iter().zip(want.iter()).position(|(a, b)| a != b).unwrap_or(got.len().min(want.len()));
            ctx.violate(
                "c06_row_bounds",
                format!("event {}: evaluator `{:?}`, location-counter model `{:?}` ({} vs {} events; address size {}, caf {:#x})", k, got.get(k), want.get(k), got.len(), want.len(), asz, caf),
            );
            return;
        }
    }
    // (d) contiguity of the reference rows (when the program stays inside the FDE's range)
    if within_fde {
        let mut prev_end: Option<u64> = None;
        let mut last_end = None;
        let mut tbl = Vec::new();
        let mut uctx: UnwindContext<usize, Unbounded> = UnwindContext::new_in();
        if let Ok(mut t) = fde.rows(&eh, &bases, &mut uctx) {
            let mut k = 0;
            while k < 4 * n + 64 {
                k += 1;
                match t.next_row() {
                    Ok(Some(r)) => tbl.push((r.start_address(), r.end_address())),
                    Ok(None) => break,
                    Err(_) => {}
                }
            }
            for (s, e) in &tbl {
                if e < s {
                    ctx.violate("c06_rows_order", format!("row {:#x}..{:#x} ends before it starts", s, e));
                    return;
                }
                if let Some(p) = prev_end {
                    if *s != p {
                        ctx.violate("c06_rows_contiguous", format!("row starts at {:#x} but the previous row ended at {:#x}", s, p));
                        return;
                    }
                }
                prev_end = Some(*e);
                last_end = Some(*e);
            }
            if let Some(e) = last_end {
                if e != fde.end_address() {
                    ctx.violate("c06_rows_end", format!("last row ends at {:#x}, the FDE at {:#x}", e, fde.end_address()));
                    return;
                }
            }
        }
    }
    let mut all: Vec<(usize, usize, &'static str, Vec<String>)> = Vec::new();
    ctx.enter("cap.ladder");
    ladder_streams!(&eh, &bases, &fde, n, all;
        (1, 1, Arr), (1, 2, Arr), (1, 4, Arr), (1, 191, Boxed), (1, 192, Boxed), (1, 193, Boxed),
        (2, 1, Arr), (2, 2, Arr), (2, 4, Arr), (2, 191, Boxed), (2, 192, Boxed), (2, 193, Boxed),
        (3, 1, Arr), (3, 2, Arr), (3, 4, Arr), (3, 191, Boxed), (3, 192, Boxed), (3, 193, Boxed),
        (4, 1, Arr), (4, 2, Arr), (4, 4, Arr), (4, 191, Boxed), (4, 192, Arr), (4, 193, Boxed),
        (5, 1, Arr), (5, 2, Arr), (5, 4, Arr), (5, 191, Boxed), (5, 192, Boxed), (5, 193, Boxed)
    );
    for (rows, rules, kind, l) in &all {
        if let Some(last) = l.last().filter(|s| s.starts_with("current_row_after_error")) {
            ctx.violate("c06_row_after_error", format!("storage {}<{},{}>: into_current_row after a failed next_row: `{}`", kind, rows, rules, last));
            return;
        }
        let cap_err = |s: &String| s == "err StackFull" || s == "err TooManyRegisterRules";
        let first_cap = l.iter().position(cap_err);
        // (a) + (b)
        let lim = first_cap.unwrap_or(l.len());
        for k in 0..lim {
            if u.get(k) != Some(&l[k]) {
                ctx.violate(
                    "c06_limited_row_differs",
                    format!("storage {}<{},{}> event {}: `{}` but unbounded storage gives `{:?}`", kind, rows, rules, k, l[k], u.get(k)),
                );
                return;
            }
        }
        if first_cap.is_none() && l.len() != u.len() {
            ctx.violate("c06_limited_row_differs", format!("storage {}<{},{}>: {} events, unbounded {} and no capacity error", kind, rows, rules, l.len(), u.len()));
            return;
        }
        // (c) exactness against the resource model
        let p = predict(&cie_ins, &fde_ins, *rows, *rules);
        let got = match first_cap.map(|k| l[k].as_str()) {
            Some("err StackFull") => Predict::StackFull,
            Some("err TooManyRegisterRules") => Predict::TooManyRegisterRules,
            _ => Predict::NeverFails,
        };
        let want = if p == Predict::InitAborts { Predict::NeverFails } else { p };
        if got != want {
            ctx.violate(
                "c06_capacity_exactness",
                format!("storage {}<{},{}>: evaluator {:?}, resource model predicts {:?} (cie {} ins, fde {} ins)", kind, rows, rules, got, p, cie_ins.len(), fde_ins.len()),
            );
            return;
        }
        if got != Predict::NeverFails {
            ctx.probe("cap_limit_exceeded");
        }
        ev!(ctx, "L {}<{},{}> events={} first_cap={:?}", kind, rows, rules, l.len(), first_cap);
    }
    // "reached exactly / exceeded by one": the peak use of this program
    let peak_rules = (1..=400usize).find(|r| predict(&cie_ins, &fde_ins, usize::MAX, *r) != Predict::TooManyRegisterRules);
    if let Some(p) = peak_rules {
        if p == 192 || p == 193 || p == 191 {
            ctx.probe("cap_peak_rules_at_boundary");
        }
    }
    let peak_rows = (1..=64usize).find(|r| predict(&cie_ins, &fde_ins, *r, usize::MAX) != Predict::StackFull);
    if let Some(p) = peak_rows {
        if p >= 4 {
            ctx.probe("cap_peak_rows_4plus");
        }
    }
    ctx.end();
}
