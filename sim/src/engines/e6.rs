//! E6 `reusesim` (C20): results never depend on what reusable state was used for before.
//! Histories of steps on ONE long-lived object; every step is also executed on FRESH
//! state with the same per-step fault plan (fault positions are relative to the step
//! start, so both executions meet the fault at the same internal point). Oracle: the
//! step's event streams are identical.

use super::Tier;
use crate::case::Case;
use crate::ctx::{Ctx, LoopGuard};
use crate::drv::cfi::{bases_of, log_row, Fixed, Unbounded};
use crate::drv::info::{load_dwarf, log_entry};
use crate::drv::endian_of;
use crate::ev;
use crate::fault::{FaultPlan, FaultReader};
use crate::rng::{mix, tag, Rng};
use crate::wl::{self, asm};
use gimli::{
    AbbreviationsCacheStrategy, BaseAddresses, CieOrFde, DebugAbbrev, DebuggingInformationEntry,
    EhFrame, EndianSlice, EntriesTreeNode, FrameDescriptionEntry, Reader, Result, RunTimeEndian,
    StoreOnHeap, UnwindContext, UnwindContextStorage, UnwindSection,
};

type FR<'a> = FaultReader<EndianSlice<'a, RunTimeEndian>>;

pub const FAMILIES: &[(&str, u64)] = &[
    ("uctx", 40),
    ("entrybuf", 14),
    ("cursor", 14),
    ("tree", 14),
    ("clones", 18),
    ("resume", 8),
    ("abbrevcache", 10),
];

// ---------------------------------------------------------------------------------------
// generation

const N_STEP_KINDS: u64 = 5;
const POOL_FDES: u64 = 16;

fn step_fault(rng: &mut Rng) -> [i64; 3] {
    match rng.below(10) {
        0..=4 => [0, 0, 0],
        5..=7 => [1, rng.below(60) as i64, rng.chance(1, 3) as i64],
        _ => [2, rng.below(60) as i64, rng.chance(1, 3) as i64],
    }
}

/// Number of exhaustive uctx histories for a tier: all histories of length <= L over the
/// fixed pool with fault-free steps.
pub fn uctx_exhaustive(tier: Tier) -> (u64, u32) {
    let alphabet = POOL_FDES * N_STEP_KINDS; // 80 step types
    match tier {
        Tier::Quick => (alphabet + alphabet * alphabet, 2),
        Tier::Thorough => (alphabet + alphabet * alphabet + alphabet * alphabet * alphabet, 3),
    }
}

pub fn gen_case(tier: Tier, master: u64, i: u64) -> Case {
    let (nex, _) = uctx_exhaustive(tier);
    if i < nex {
        // exhaustive block: history = digits of i in base 80 (length 1, then 2, then 3)
        let alphabet = POOL_FDES * N_STEP_KINDS;
        let mut c = Case::new("e6", "uctx");
        c.set("addr_size", 8);
        c.set("storage", ((i / 7) % 4) as i64);
        c.put("eh_frame", asm::cfi_pool(&mut Rng::new(0x5eed_f00d), false));
        let (len, mut k) = if i < alphabet {
            (1, i)
        } else if i < alphabet + alphabet * alphabet {
            (2, i - alphabet)
        } else {
            (3, i - alphabet - alphabet * alphabet)
        };
        for _ in 0..len {
            let d = k % alphabet;
            k /= alphabet;
            c.steps.push(vec![(d % N_STEP_KINDS) as i64, (d / N_STEP_KINDS) as i64, (d * 7 % 5) as i64, 0, 0, 0]);
        }
        c.note = "exhaustive".into();
        return c;
    }
    let mut rng = Rng::new(mix(master, tag("e6"), i));
    let total: u64 = FAMILIES.iter().map(|f| f.1).sum();
    let mut r = rng.below(total);
    let mut fam = FAMILIES[0].0;
    for (f, w) in FAMILIES {
        if r < *w {
            fam = f;
            break;
        }
        r -= w;
    }
    let mut c = Case::new("e6", fam);
    let be = rng.chance(1, 4);
    c.set("be", be as i64);
    let asz = *rng.pick(&[4i64, 8, 8]);
    c.set("addr_size", asz);
    c.set("sel", rng.below(1 << 30) as i64);
    match fam {
        "uctx" => {
            c.set("storage", rng.below(4) as i64);
            c.set("addr_size", 8);
            let mut eh = if rng.chance(2, 3) {
                c.note = "pool".into();
                let s = rng.next();
                asm::cfi_pool(&mut Rng::new(s), be)
            } else {
                c.note = "asm".into();
                c.set("addr_size", asz);
                asm::cfi(&mut rng, be, asz as u8).eh_frame
            };
            if rng.chance(1, 6) {
                wl::corrupt_some(&mut rng, &mut eh, &[], &mut c.note);
            }
            c.put("eh_frame", eh);
            let long = rng.chance(1, 4);
            let n = 1 + rng.usize(if long { 24 } else { 6 });
            for _ in 0..n {
                let f = step_fault(&mut rng);
                c.steps.push(vec![rng.below(N_STEP_KINDS) as i64, rng.below(24) as i64, rng.below(64) as i64, f[0], f[1], f[2]]);
            }
        }
        "entrybuf" | "cursor" | "tree" | "clones" | "abbrevcache" => {
            c.note = "asm".into();
            if rng.chance(1, 3) || (fam == "tree" && rng.bool()) {
                let m = if fam == "tree" { wl::writer::dwarf_sections_bushy(&mut rng, be, asz as u8) } else { wl::writer::dwarf_sections(&mut rng, be, asz as u8) };
                if let Some(m) = m {
                    for (k, v) in m {
                        c.put(&k, v);
                    }
                    c.note = "writer".into();
                }
            }
            if c.secs.is_empty() {
                let (ab, info, types) = asm::info(&mut rng, be, asz as u8);
                c.put("debug_abbrev", ab);
                c.put("debug_info", info);
                c.put("debug_types", types);
                let (s, o) = asm::strs(&mut rng, be);
                c.put("debug_str", s);
                c.put("debug_str_offsets", o);
            }
            if fam == "clones" {
                let o = asm::cfi(&mut rng, be, asz as u8);
                c.put("eh_frame", o.eh_frame);
                c.put("debug_line", asm::line_program(&mut rng, be, asz as u8));
                c.put("debug_aranges", asm::aranges(&mut rng, be));
                c.put("debug_addr", asm::addr(&mut rng, be));
                c.put("debug_pubnames", asm::pubs(&mut rng, be));
                c.put("debug_macinfo", asm::macros(&mut rng, be, false));
                c.put("debug_names", asm::names(&mut rng, be).0);
                let p = wl::expr::EncParams { be, addr_size: asz as u8, d64: false, version: 4 };
                c.put("expr", wl::expr::encode(&wl::expr::random_program(&mut rng, 10, &p), &p));
            }
            if fam == "abbrevcache" {
                // a second, different abbreviation section to swap in between populates
                let (ab2, _, _) = asm::info(&mut rng, be, asz as u8);
                c.put("debug_abbrev_alt", ab2);
            }
            if rng.chance(1, 5) {
                let mut v = c.sec("debug_info").to_vec();
                wl::corrupt_some(&mut rng, &mut v, &[], &mut c.note);
                c.put("debug_info", v);
            }
            let n = 1 + rng.usize(8);
            for _ in 0..n {
                let f = step_fault(&mut rng);
                c.steps.push(vec![rng.below(8) as i64, rng.below(64) as i64, rng.below(64) as i64, f[0], f[1], f[2]]);
            }
        }
        "resume" => {
            c.note = "asm".into();
            let mut v = asm::line_program(&mut rng, be, asz as u8);
            if rng.chance(1, 6) {
                wl::corrupt_some(&mut rng, &mut v, &[], &mut c.note);
            }
            c.put("debug_line", v);
            for _ in 0..1 + rng.usize(6) {
                c.steps.push(vec![rng.below(16) as i64, rng.below(16) as i64]);
            }
        }
        _ => unreachable!(),
    }
    c
}

// ---------------------------------------------------------------------------------------
// execution

fn plan_of(step: &[i64]) -> FaultPlan {
    if step.len() >= 6 {
        FaultPlan::from_vec(&step[3..6])
    } else {
        FaultPlan::None
    }
}

fn first_diff(a: &str, b: &str) -> String {
    for (i, (x, y)) in a.lines().zip(b.lines()).enumerate() {
        if x != y {
            return format!("line {}: reused `{}` vs fresh `{}`", i, x, y);
        }
    }
    format!("lengths differ: reused {} lines vs fresh {} lines", a.lines().count(), b.lines().count())
}

/// A clone of a row is the row: same boundaries, CFA, argument size and every register rule
/// (explicit `Undefined` rules included).
fn row_clone_is_faithful<S: UnwindContextStorage<usize>>(ctx: &mut Ctx<'_>, row: &gimli::UnwindTableRow<usize, S>) -> gimli::UnwindTableRow<usize, S> {
    let c = row.clone();
    let desc = |r: &gimli::UnwindTableRow<usize, S>| {
        let mut v: Vec<String> = r.registers().map(|(reg, rule)| format!("{}={:?}", reg.0, rule)).collect();
        v.sort();
        format!("{:#x}..{:#x} {:?} {} [{}]", r.start_address(), r.end_address(), r.cfa(), r.saved_args_size(), v.join(","))
    };
    let (a, b) = (desc(row), desc(&c));
    if a != b {
        ctx.violate("c20_clone", format!("a clone of the row `{}` is `{}`", a, b));
    }
    c
}

fn uctx_step<'a, S: UnwindContextStorage<usize>>(
    ctx: &mut Ctx<'_>,
    eh: &EhFrame<FR<'a>>,
    bases: &BaseAddresses,
    uctx: &mut UnwindContext<usize, S>,
    fde: &FrameDescriptionEntry<FR<'a>>,
    kind: i64,
    arg: i64,
    n: usize,
) {
    let addr = fde.initial_address().wrapping_add((arg as u64) % fde.len().max(1).saturating_add(2));
    match kind {
        0 | 1 | 4 => {
            ctx.enter("reuse.fde.rows");
            match fde.rows(eh, bases, uctx) {
                Ok(mut table) => {
                    let limit = if kind == 1 { (arg % 4) as u64 } else { u64::MAX };
                    let mut k = 0u64;
                    let mut guard = LoopGuard::new(ctx.iter_bound(n));
                    loop {
                        if k >= limit {
                            ev!(ctx, "abandon after {} rows", k);
                            break;
                        }
                        ctx.enter("reuse.table.next_row");
                        if !guard.step(ctx) {
                            break;
                        }
                        match table.next_row() {
                            Ok(Some(row)) => {
                                let row = row_clone_is_faithful(ctx, row);
                                log_row(ctx, &row);
                                k += 1;
                            }
                            Ok(None) => {
                                ev!(ctx, "rows end");
                                break;
                            }
                            Err(e) => ctx.err(&e),
                        }
                    }
                    if kind == 4 {
                        match table.into_current_row() {
                            Some(r) => {
                                let r = r.clone();
                                ev!(ctx, "into_current_row");
                                log_row(ctx, &r);
                            }
                            None => {
                                ev!(ctx, "into_current_row none");
                            }
                        }
                    }
                }
                Err(e) => ctx.err(&e),
            }
        }
        2 => {
            ctx.enter("reuse.fde.unwind_info_for_address");
            match fde.unwind_info_for_address(eh, bases, uctx, addr) {
                Ok(row) => {
                    let row = row.clone();
                    log_row(ctx, &row);
                }
                Err(e) => ctx.err(&e),
            }
        }
        _ => {
            ctx.enter_with_budget("reuse.section.unwind_info_for_address", 64 * (n as u64 + 1) * (n as u64 / 8 + 1) + (1 << 20));
            match eh.unwind_info_for_address(bases, uctx, addr, |s, b, o| s.cie_from_offset(b, o)) {
                Ok(row) => {
                    let row = row.clone();
                    log_row(ctx, &row);
                }
                Err(e) => ctx.err(&e),
            }
        }
    }
}

fn run_uctx<'a, S: UnwindContextStorage<usize>>(case: &'a Case, ctx: &mut Ctx<'_>, mk: &dyn Fn(&'a [u8]) -> FR<'a>) {
    let bytes = case.sec("eh_frame");
    let n = bytes.len();
    let bases = bases_of(case);
    let mut eh = EhFrame::from(mk(bytes));
    eh.set_address_size(case.knob("addr_size", 8) as u8);
    // collect the FDE pool fault-free
    ctx.sim.arm(FaultPlan::None);
    let mut fdes: Vec<FrameDescriptionEntry<FR<'a>>> = Vec::new();
    let mut it = eh.entries(&bases);
    let mut guard = LoopGuard::new(ctx.iter_bound(n));
    ctx.enter("reuse.entries");
    while guard.step(ctx) {
        match it.next() {
            Ok(Some(CieOrFde::Fde(p))) => {
                if let Ok(f) = p.parse(|s, b, o| s.cie_from_offset(b, o)) {
                    if fdes.len() < 24 {
                        fdes.push(f);
                    }
                }
            }
            Ok(Some(_)) => {}
            Ok(None) => break,
            Err(_) => break,
        }
    }
    ev!(ctx, "pool {}", fdes.len());
    if fdes.is_empty() {
        return;
    }
    ctx.item();
    let mut long: UnwindContext<usize, S> = UnwindContext::new_in();
    for (si, step) in case.steps.iter().enumerate() {
        let fde = &fdes[(step[1] as usize) % fdes.len()];
        let plan = plan_of(step);
        ctx.sim.arm(plan);
        ctx.capture_begin();
        uctx_step(ctx, &eh, &bases, &mut long, fde, step[0], step[2], n);
        let a = ctx.capture_end();
        let mut fresh: UnwindContext<usize, S> = UnwindContext::new_in();
        ctx.sim.arm(plan);
        ctx.capture_begin();
        uctx_step(ctx, &eh, &bases, &mut fresh, fde, step[0], step[2], n);
        let b = ctx.capture_end();
        ctx.sim.arm(FaultPlan::None);
        if a.contains("err ") {
            ctx.probe("reuse_step_failed");
        }
        if a != b {
            ctx.violate("c20_unwind_context", format!("step {} (kind {} fde {}): {}", si, step[0], step[1], first_diff(&a, &b)));
            return;
        }
    }
    ctx.end();
}

/// `skip` != 0: the children of some nodes (chosen by entry offset) are not visited, so the
/// next sibling is reached through the tree's own skipping (DW_AT_sibling fast path or scan).
fn walk<R: Reader<Offset = usize>>(ctx: &mut Ctx<'_>, node: EntriesTreeNode<'_, '_, R>, depth: usize, budget: &mut i64, skip: u64) {
    log_entry(ctx, "tree", node.entry(), true);
    if depth > 100 {
        return;
    }
    if skip != 0 && depth > 0 && crate::rng::mix(skip, node.entry().offset().0 as u64, 7) & 1 == 1 {
        ev!(ctx, "skip children");
        return;
    }
    let mut children = node.children();
    let mut guard = LoopGuard::new(ctx.iter_bound(ctx.n_bytes));
    loop {
        if *budget <= 0 {
            ev!(ctx, "abandon");
            return;
        }
        *budget -= 1;
        ctx.enter("reuse.tree.next");
        if !guard.step(ctx) {
            return;
        }
        match children.next() {
            Ok(Some(c)) => walk(ctx, c, depth + 1, budget, skip),
            Ok(None) => return,
            Err(e) => ctx.err(&e),
        }
    }
}

/// The offsets of the root's children and grandchildren, as its iterators yield them while
/// (mode != 0) each child's and grandchild's own iterator is driven a mode-chosen number of
/// steps and then dropped. None on any error.
fn tree_kids<R: Reader<Offset = usize>>(ctx: &mut Ctx<'_>, tree: &mut gimli::EntriesTree<'_, R>, mode: u64) -> Option<Vec<(usize, usize)>> {
    ctx.enter("reuse.tree.history");
    let root = tree.root().ok()?;
    let mut out = Vec::new();
    let mut children = root.children();
    let mut guard = 0;
    while let Some(c) = children.next().ok()? {
        guard += 1;
        if guard > 4096 {
            return None;
        }
        let off = c.entry().offset().0;
        out.push((1, off));
        let mut gc = c.children();
        while let Some(g) = gc.next().ok()? {
            let goff = g.entry().offset().0;
            out.push((2, goff));
            guard += 1;
            if guard > 4096 {
                return None;
            }
            if mode != 0 {
                // drive the great-grandchildren iterator part of the way, then drop it
                let take = crate::rng::mix(mode, goff as u64, 3) % 4;
                let mut ggc = g.children();
                for _ in 0..take {
                    match ggc.next().ok()? {
                        Some(gg) => {
                            if crate::rng::mix(mode, gg.entry().offset().0 as u64, 5) & 1 == 1 {
                                let mut deeper = gg.children();
                                let _ = deeper.next().ok()?;
                            }
                        }
                        None => break,
                    }
                }
            }
            // even modes: stop looking at this child's children early (the comparison then
            // covers the root's children only)
            if mode != 0 && mode % 2 == 0 && crate::rng::mix(mode, goff as u64, 11) % 5 == 0 {
                break;
            }
        }
    }
    Some(out)
}

fn run_info<'a>(case: &'a Case, ctx: &mut Ctx<'_>, mk: &dyn Fn(&'a [u8]) -> FR<'a>) {
    let n = ctx.n_bytes;
    ctx.sim.arm(FaultPlan::None);
    let mut dwarf = load_dwarf(mk, case, "");
    let mut headers = Vec::new();
    let mut it = dwarf.units();
    while let Ok(Some(h)) = it.next() {
        if headers.len() < 4 {
            headers.push(h);
        }
    }
    let mut it = dwarf.type_units();
    while let Ok(Some(h)) = it.next() {
        if headers.len() < 5 {
            headers.push(h);
        }
    }
    if headers.is_empty() {
        return;
    }
    ctx.item();
    match case.family.as_str() {
        "entrybuf" => {
            // one buffer reused across every entry of every unit, across nulls and errors
            let mut reused = DebuggingInformationEntry::null();
            let mut si = 0usize;
            for h in &headers {
                let abbrevs = match dwarf.abbreviations(h) {
                    Ok(a) => a,
                    Err(_) => continue,
                };
                let mut raw = match h.entries_raw(&abbrevs, None) {
                    Ok(r) => r,
                    Err(_) => continue,
                };
                let mut guard = LoopGuard::new(ctx.iter_bound(n));
                while !raw.is_empty() {
                    ctx.enter("reuse.raw.read_entry");
                    if !guard.step(ctx) {
                        break;
                    }
                    let step = &case.steps[si % case.steps.len()];
                    si += 1;
                    let plan = if si % 3 == 0 { plan_of(step) } else { FaultPlan::None };
                    let plan = match plan {
                        FaultPlan::StickyFrom(k, e) => FaultPlan::TransientAt(k % 12, e),
                        FaultPlan::TransientAt(k, e) => FaultPlan::TransientAt(k % 12, e),
                        p => p,
                    };
                    let mut raw2 = raw.clone();
                    ctx.sim.arm(plan);
                    let r1 = raw.read_entry(&mut reused);
                    ctx.sim.arm(plan);
                    let mut fresh = DebuggingInformationEntry::null();
                    let r2 = raw2.read_entry(&mut fresh);
                    ctx.sim.arm(FaultPlan::None);
                    match (&r1, &r2) {
                        (Ok(a), Ok(b)) => {
                            ctx.capture_begin();
                            ev!(ctx, "ok={}", a);
                            log_entry(ctx, "e", &reused, true);
                            let s1 = ctx.capture_end();
                            ctx.capture_begin();
                            ev!(ctx, "ok={}", b);
                            log_entry(ctx, "e", &fresh, true);
                            let s2 = ctx.capture_end();
                            if s1 != s2 {
                                ctx.violate("c20_entry_buffer", format!("entry at {}: {}", fresh.offset().0, first_diff(&s1, &s2)));
                                return;
                            }
                        }
                        (Err(e1), Err(e2)) => {
                            ctx.err(e1);
                            ctx.probe("reuse_step_failed");
                            if crate::ctx::err_name(e1) != crate::ctx::err_name(e2) {
                                ctx.violate("c20_entry_buffer", format!("reused buffer failed with {:?}, fresh with {:?}", crate::ctx::err_name(e1), crate::ctx::err_name(e2)));
                                return;
                            }
                            // the documented caller stops at the first error
                            break;
                        }
                        (a, b) => {
                            ctx.violate("c20_entry_buffer", format!("reused ok={} fresh ok={}", a.is_ok(), b.is_ok()));
                            return;
                        }
                    }
                }
            }
            ctx.end();
        }
        "cursor" => {
            // a cursor used across entries, nulls and errors: after every step its observable
            // state (result, current entry) must be what a fresh cursor positioned at the
            // same offset shows after the same step under the same fault plan
            let mut si = 0usize;
            for h in &headers {
                let abbrevs = match dwarf.abbreviations(h) {
                    Ok(a) => a,
                    Err(_) => continue,
                };
                let mut used = h.entries(&abbrevs);
                let mut guard = LoopGuard::new(ctx.iter_bound(n));
                loop {
                    ctx.enter("reuse.cursor.step");
                    if !guard.step(ctx) {
                        break;
                    }
                    let step = &case.steps[si % case.steps.len()];
                    si += 1;
                    let plan = match if si % 2 == 0 { plan_of(step) } else { FaultPlan::None } {
                        FaultPlan::StickyFrom(k, e) => FaultPlan::TransientAt(k % 10, e),
                        FaultPlan::TransientAt(k, e) => FaultPlan::TransientAt(k % 10, e),
                        p => p,
                    };
                    let use_dfs = step[0] % 2 == 1;
                    let at = used.next_offset();
                    ctx.sim.arm(FaultPlan::None);
                    let fresh = h.entries_at_offset(&abbrevs, at);
                    let describe = |ctx: &mut Ctx<'_>, cur: &gimli::EntriesCursor<'_, FR<'a>>, res: String| -> String {
                        ctx.capture_begin();
                        ev!(ctx, "{}", res);
                        match cur.current() {
                            Some(e) => {
                                ev!(ctx, "current off={} tag={:?} children={}", e.offset().0, e.tag(), e.has_children());
                                for a in e.attrs() {
                                    ev!(ctx, "  {:?} {:?}", a.name(), a.form());
                                    crate::drv::line::log_attr_value(ctx, "   v", &a.raw_value());
                                }
                            }
                            None => {
                                ev!(ctx, "current none");
                            }
                        }
                        ev!(ctx, "next_offset {}", cur.next_offset().0);
                        ctx.capture_end()
                    };
                    ctx.sim.arm(plan);
                    let r1 = if use_dfs { used.next_dfs().map(|o| o.is_some()) } else { used.next_entry() };
                    ctx.sim.arm(FaultPlan::None);
                    let end = matches!(r1, Ok(false));
                    let s1 = describe(ctx, &used, match &r1 {
                        Ok(b) => format!("ok {}", b),
                        Err(e) => format!("err {}", crate::ctx::err_name(e)),
                    });
                    if let Ok(mut fresh) = fresh {
                        // next_dfs skips nulls, which a fresh cursor does identically
                        ctx.sim.arm(plan);
                        let r2 = if use_dfs { fresh.next_dfs().map(|o| o.is_some()) } else { fresh.next_entry() };
                        ctx.sim.arm(FaultPlan::None);
                        let s2 = describe(ctx, &fresh, match &r2 {
                            Ok(b) => format!("ok {}", b),
                            Err(e) => format!("err {}", crate::ctx::err_name(e)),
                        });
                        if s1 != s2 {
                            ctx.violate("c20_cursor", format!("cursor at offset {}: {}", at.0, first_diff(&s1, &s2)));
                            return;
                        }
                        // sibling stepping from here: the cursor that walked to this entry and the
                        // one positioned at its offset must visit the same siblings (clones, so
                        // the history itself is not disturbed)
                        if matches!(r1, Ok(true)) && step[0] % 3 != 2 {
                            let (mut a, mut b) = (used.clone(), fresh.clone());
                            for k in 0..48 {
                                let f = |r: gimli::Result<Option<&DebuggingInformationEntry<FR<'a>>>>| match r {
                                    Ok(Some(e)) => format!("sibling off={} tag={:?}", e.offset().0, e.tag()),
                                    Ok(None) => "none".to_string(),
                                    Err(e) => format!("err {}", crate::ctx::err_name(&e)),
                                };
                                let (ra, rb) = (f(a.next_sibling()), f(b.next_sibling()));
                                if ra != rb {
                                    ctx.violate(
                                        "c20_cursor",
                                        format!("next_sibling #{} from the entry at {}: the cursor that walked there gives `{}`, the one positioned there gives `{}`", k, at.0, ra, rb),
                                    );
                                    return;
                                }
                                if !ra.starts_with("sibling") {
                                    break;
                                }
                            }
                        }
                    }
                    if r1.is_err() {
                        ctx.probe("reuse_step_failed");
                    }
                    // stepped past the last entry: the reused entry buffer must not keep showing
                    // it (a cursor that never read anything shows none)
                    let past_end = matches!(r1, Ok(false)) && !use_dfs || (use_dfs && matches!(r1, Ok(false)));
                    if past_end && used.current().is_some() {
                        ctx.violate(
                            "c20_cursor",
                            format!("after stepping past the end (offset {}), current() still shows the entry at {}", at.0, used.current().map(|e| e.offset().0).unwrap_or(0)),
                        );
                        return;
                    }
                    if end || r1.is_err() {
                        break;
                    }
                }
            }
            ctx.end();
        }
        "tree" => {
            let h = &headers[(case.knob("sel", 0) as usize) % headers.len()];
            let abbrevs = match dwarf.abbreviations(h) {
                Ok(a) => a,
                Err(_) => return,
            };
            let mut long = match h.entries_tree(&abbrevs, None) {
                Ok(t) => t,
                Err(_) => return,
            };
            for (si, step) in case.steps.iter().enumerate() {
                let plan = plan_of(step);
                let budget0 = if step[0] % 2 == 0 { 1 + step[1] % 12 } else { 10_000 };
                let skip = if step[1] % 3 == 0 { 0 } else { 0x5eed ^ (step[1] as u64) };
                ctx.sim.arm(plan);
                ctx.capture_begin();
                ctx.enter("reuse.tree.root");
                match long.root() {
                    Ok(root) => {
                        let mut b = budget0;
                        walk(ctx, root, 0, &mut b, skip);
                    }
                    Err(e) => ctx.err(&e),
                }
                let a = ctx.capture_end();
                ctx.sim.arm(FaultPlan::None);
                let mut fresh = match h.entries_tree(&abbrevs, None) {
                    Ok(t) => t,
                    Err(_) => return,
                };
                ctx.sim.arm(plan);
                ctx.capture_begin();
                ctx.enter("reuse.tree.root");
                match fresh.root() {
                    Ok(root) => {
                        let mut b = budget0;
                        walk(ctx, root, 0, &mut b, skip);
                    }
                    Err(e) => ctx.err(&e),
                }
                let b = ctx.capture_end();
                ctx.sim.arm(FaultPlan::None);
                if a.contains("err ") {
                    ctx.probe("reuse_step_failed");
                }
                if a != b {
                    ctx.violate("c20_tree_reroot", format!("step {}: {}", si, first_diff(&a, &b)));
                    return;
                }
            }
            // What a node's iterator yields must not depend on how far the iterators of its
            // children were driven before they were dropped (they all share the tree's cursor).
            // Only on well-formed units: with an invalid DW_AT_sibling the skipping path and the
            // scanning path legitimately end in different places.
            if case.note == "writer" {
                let sel = case.knob("sel", 0) as u64;
                let base = tree_kids(ctx, &mut long, 0);
                for mode in [1 + sel % 97, 101 + (sel >> 8) % 89] {
                    let got = tree_kids(ctx, &mut long, mode);
                    if let (Some(a), Some(b)) = (&base, &got) {
                        ctx.probe("tree_history_compared");
                        let level1 = |v: &Vec<(usize, usize)>| v.iter().filter(|x| x.0 == 1).cloned().collect::<Vec<_>>();
                        let (a, b) = if mode % 2 == 0 { (level1(a), level1(b)) } else { (a.clone(), b.clone()) };
                        if a != b {
                            ctx.violate(
                                "c20_tree_history",
                                format!("children of the root are {:x?} when their subtrees are left alone but {:x?} after partial traversals of them (mode {})", a, b, mode),
                            );
                            return;
                        }
                    }
                }
            }
            ctx.end();
        }
        "abbrevcache" => {
            // histories over cache strategies; queries are fault-free (a cached populate-time
            // result legitimately differs from a faulted fresh parse)
            let mut cached = load_dwarf(mk, case, "");
            let mut abbrev = DebugAbbrev::from(mk(case.sec("debug_abbrev")));
            let mut alt = false;
            for (si, step) in case.steps.iter().enumerate() {
                ctx.enter("reuse.cache.populate");
                match step[0] % 5 {
                    0 => cached.populate_abbreviations_cache(AbbreviationsCacheStrategy::Duplicates),
                    1 => cached.populate_abbreviations_cache(AbbreviationsCacheStrategy::All),
                    4 => {
                        // the abbreviation section is replaced (another file's, say) and the cache
                        // populated again: "any existing cache entries are discarded"
                        alt = !alt;
                        let name = if alt { "debug_abbrev_alt" } else { "debug_abbrev" };
                        abbrev = DebugAbbrev::from(mk(case.sec(name)));
                        cached.debug_abbrev = abbrev.clone();
                        dwarf.debug_abbrev = abbrev.clone();
                        cached.populate_abbreviations_cache(if step[2] % 2 == 0 { AbbreviationsCacheStrategy::Duplicates } else { AbbreviationsCacheStrategy::All });
                    }
                    2 => {
                        // set(): install the table parsed for one unit's offset
                        let h = &headers[(step[1] as usize) % headers.len()];
                        if let Ok(a) = abbrev.abbreviations(h.debug_abbrev_offset()) {
                            cached.abbreviations_cache.set::<FR<'a>>(h.debug_abbrev_offset(), std::sync::Arc::new(a));
                        }
                    }
                    _ => {
                        cached = load_dwarf(mk, case, "");
                        alt = false;
                        abbrev = DebugAbbrev::from(mk(case.sec("debug_abbrev")));
                        dwarf.debug_abbrev = abbrev.clone();
                    }
                }
                for h in &headers {
                    ctx.capture_begin();
                    ctx.enter("reuse.cache.unit");
                    describe_unit(ctx, &cached, h);
                    let a = ctx.capture_end();
                    ctx.capture_begin();
                    ctx.enter("reuse.cache.unit");
                    describe_unit(ctx, &dwarf, h);
                    let b = ctx.capture_end();
                    if a != b {
                        ctx.violate("c20_abbrev_cache", format!("after step {} (op {}): {}", si, step[0] % 5, first_diff(&a, &b)));
                        return;
                    }
                }
            }
            ctx.end();
        }
        _ => unreachable!(),
    }
}

fn describe_unit<R: Reader<Offset = usize>>(ctx: &mut Ctx<'_>, dwarf: &gimli::Dwarf<R>, h: &gimli::UnitHeader<R>) {
    match dwarf.abbreviations(h) {
        Ok(a) => {
            for code in [1u64, 2, 3, 4, 5, 1000, 1001, u64::MAX] {
                if let Some(ab) = a.get(code) {
                    ev!(ctx, "abbrev {} {:?} {} {:?}", ab.code(), ab.tag(), ab.has_children(), ab.attributes());
                }
            }
        }
        Err(e) => ctx.err(&e),
    }
    match dwarf.unit(h.clone()) {
        Ok(u) => {
            ev!(ctx, "unit low_pc={:#x} bases={} {} {} {} line={}", u.low_pc, u.str_offsets_base.0, u.addr_base.0, u.loclists_base.0, u.rnglists_base.0, u.line_program.is_some());
            let mut cur = u.entries();
            let mut k = 0;
            while let Ok(Some(e)) = cur.next_dfs() {
                let x = (e.offset().0, e.depth(), e.tag(), e.attrs().len());
                ev!(ctx, "die {:?}", x);
                k += 1;
                if k > 64 {
                    break;
                }
            }
        }
        Err(e) => ctx.err(&e),
    }
}

/// Clone equivalence: after advancing `p` steps (possibly through an injected error), a
/// clone and its original, stepped in a seed-chosen interleaving, yield the same
/// remaining stream; fault-free, that stream is also what a fresh iterator yields from p.
fn clone_check<I: Clone>(
    ctx: &mut Ctx<'_>,
    name: &'static str,
    make: &dyn Fn() -> I,
    next: &dyn Fn(&mut I) -> Option<String>,
    p: usize,
    plan: FaultPlan,
    schedule: u64,
    drop_early: bool,
) {
    let cap = 400usize;
    ctx.enter(name);
    ctx.sim.arm(FaultPlan::None);
    // fresh reference stream
    let mut fresh = make();
    let mut full: Vec<String> = Vec::new();
    while full.len() < cap {
        match next(&mut fresh) {
            Some(s) => full.push(s),
            None => break,
        }
    }
    // advance the original, possibly through a fault
    let mut orig = make();
    ctx.sim.arm(plan);
    let mut k = 0;
    let mut pre: Vec<String> = Vec::new();
    while k < p {
        match next(&mut orig) {
            Some(s) => pre.push(s),
            None => break,
        }
        k += 1;
    }
    let faulted = ctx.sim.fired.get() > 0;
    ctx.sim.arm(FaultPlan::None);
    let mut cl = orig.clone();
    let (mut a, mut b): (Vec<String>, Vec<String>) = (Vec::new(), Vec::new());
    let (mut da, mut db) = (false, false);
    let mut sched = schedule | 1;
    let mut ticks = 0;
    let stop_b = if drop_early { (schedule % 5) as usize } else { usize::MAX };
    while !(da && db) && ticks < 2 * cap + 8 {
        ticks += 1;
        let pick_a = sched & 1 == 0;
        sched = sched.rotate_right(1) ^ (ticks as u64).wrapping_mul(0x9e37);
        if (pick_a && !da) || db {
            match next(&mut orig) {
                Some(s) => a.push(s),
                None => da = true,
            }
            if a.len() >= cap {
                da = true;
            }
        } else {
            if b.len() >= stop_b {
                db = true; // the clone is dropped early
                continue;
            }
            match next(&mut cl) {
                Some(s) => b.push(s),
                None => db = true,
            }
            if b.len() >= cap {
                db = true;
            }
        }
    }
    drop(cl);
    ev!(ctx, "{} p={} pre={} a={} b={} faulted={}", name, p, pre.len(), a.len(), b.len(), faulted);
    ctx.item();
    let nb = b.len();
    if a.len() < nb || a[..nb] != b[..] {
        ctx.violate("c20_clone", format!("{}: clone taken at {} diverges from its original: {:?} vs {:?}", name, p, a.iter().take(nb + 1).last(), b.last()));
        return;
    }
    if !faulted && pre.len() == p.min(full.len()) && full.len() < cap {
        let want = &full[pre.len().min(full.len())..];
        if a != want {
            ctx.violate("c20_clone", format!("{}: continuing from position {} yields {} items, a fresh iterator yields {} from there", name, p, a.len(), want.len()));
        }
    }
}

fn item<T: std::fmt::Debug>(r: Result<Option<T>>) -> Option<String> {
    match r {
        Ok(Some(x)) => Some(format!("{:?}", x)),
        Ok(None) => None,
        Err(e) => Some(format!("err {}", crate::ctx::err_name(&e))),
    }
}

fn run_clones<'a>(case: &'a Case, ctx: &mut Ctx<'_>, mk: &dyn Fn(&'a [u8]) -> FR<'a>) {
    use std::cell::RefCell;
    let sim = ctx.sim.clone();
    let hex = move |r: &FR<'a>| -> String {
        let was = sim.mute(true);
        let s = r.to_slice().map(|b| crate::case::hex(&b[..b.len().min(24)])).unwrap_or_default();
        sim.mute(was);
        s
    };
    let bases = bases_of(case);
    let asz = case.knob("addr_size", 8) as u8;
    for (si, step) in case.steps.iter().enumerate() {
        let p = (step[1] % 12) as usize;
        let plan = match plan_of(step) {
            FaultPlan::StickyFrom(k, e) => FaultPlan::TransientAt(k % 40, e),
            x => x,
        };
        let sched = (step[2] as u64).wrapping_mul(0x9e3779b97f4a7c15) ^ si as u64;
        let de = step[2] % 3 == 0;
        match step[0] % 8 {
            0 => {
                let mut eh = EhFrame::from(mk(case.sec("eh_frame")));
                eh.set_address_size(asz);
                let ehr = &eh;
                let b = &bases;
                clone_check(
                    ctx,
                    "clone.cfi_entries",
                    &|| ehr.entries(b),
                    &|it| match it.next() {
                        Ok(Some(CieOrFde::Cie(c))) => Some(format!("cie {} {}", c.offset(), c.entry_len())),
                        Ok(Some(CieOrFde::Fde(f))) => Some(format!("fde {} {}", f.offset(), f.entry_len())),
                        Ok(None) => None,
                        Err(e) => Some(format!("err {}", crate::ctx::err_name(&e))),
                    },
                    p, plan, sched, de,
                );
                // instruction iterator of the first CIE
                let mut it = eh.entries(&bases);
                if let Ok(Some(CieOrFde::Cie(c))) = it.next() {
                    let c = &c;
                    clone_check(ctx, "clone.cfi_instructions", &|| c.instructions(ehr, b), &|it| item(it.next()), p, plan, sched, de);
                }
            }
            1 => {
                let enc = gimli::Encoding { address_size: asz, format: gimli::Format::Dwarf32, version: 4 };
                let bytes = case.sec("expr");
                clone_check(
                    ctx,
                    "clone.operations",
                    &|| gimli::Expression(mk(bytes)).operations(enc),
                    &|it| match it.next() {
                        Ok(Some(op)) => Some(match op {
                            gimli::Operation::ImplicitValue { data } => format!("ImplicitValue {}", hex(&data)),
                            gimli::Operation::EntryValue { expression } => format!("EntryValue {}", hex(&expression)),
                            gimli::Operation::TypedLiteral { base_type, value } => format!("TypedLiteral {} {}", base_type.0, hex(&value)),
                            o => format!("{:?}", o),
                        }),
                        Ok(None) => None,
                        Err(e) => Some(format!("err {}", crate::ctx::err_name(&e))),
                    },
                    p, plan, sched, de,
                );
            }
            2 | 3 => {
                ctx.sim.arm(FaultPlan::None);
                let dwarf = load_dwarf(mk, case, "");
                let d = &dwarf;
                clone_check(
                    ctx,
                    "clone.unit_headers",
                    &|| d.units(),
                    &|it| match it.next() {
                        Ok(Some(h)) => Some(format!("{:?} {} {:?}", h.offset(), h.unit_length(), h.encoding())),
                        Ok(None) => None,
                        Err(e) => Some(format!("err {}", crate::ctx::err_name(&e))),
                    },
                    p, plan, sched, de,
                );
                let mut it = dwarf.units();
                if let Ok(Some(h)) = it.next() {
                    if let Ok(ab) = dwarf.abbreviations(&h) {
                        let (h, ab) = (&h, &ab);
                        let buf: RefCell<DebuggingInformationEntry<FR<'a>>> = RefCell::new(DebuggingInformationEntry::null());
                        if h.entries_raw(ab, None).is_ok() {
                            clone_check(
                                ctx,
                                "clone.entries_raw",
                                &|| (h.entries_raw(ab, None).unwrap(), false),
                                &|(raw, dead)| {
                                    // documented caller stops at the first error: the error is the end
                                    if *dead || raw.is_empty() {
                                        return None;
                                    }
                                    let mut e = buf.borrow_mut();
                                    match raw.read_entry(&mut e) {
                                        Ok(b) => Some(format!("{} {} {} {:?} {}", b, e.offset().0, e.depth(), e.tag(), e.attrs().len())),
                                        Err(_) => {
                                            *dead = true;
                                            None
                                        }
                                    }
                                },
                                p, plan, sched, de,
                            );
                        }
                        clone_check(
                            ctx,
                            "clone.entries_cursor",
                            &|| h.entries(ab),
                            &|cur| match cur.next_dfs() {
                                Ok(Some(e)) => Some(format!("{} {} {:?} {}", e.offset().0, e.depth(), e.tag(), e.attrs().len())),
                                Ok(None) => None,
                                Err(e) => Some(format!("err {}", crate::ctx::err_name(&e))),
                            },
                            p, plan, sched, de,
                        );
                        // tree clone: re-root both and walk
                        if let Ok(tree) = h.entries_tree(ab, None) {
                            let mut t1 = tree.clone();
                            let mut t2 = tree;
                            ctx.capture_begin();
                            if let Ok(r) = t1.root() {
                                let mut b = 200;
                                walk(ctx, r, 0, &mut b, p as u64);
                            }
                            let a = ctx.capture_end();
                            ctx.capture_begin();
                            if let Ok(r) = t2.root() {
                                let mut b = 200;
                                walk(ctx, r, 0, &mut b, p as u64);
                            }
                            let b2 = ctx.capture_end();
                            if a != b2 {
                                ctx.violate("c20_clone", format!("clone.entries_tree: {}", first_diff(&a, &b2)));
                            }
                        }
                    }
                }
            }
            4 => {
                let sec = gimli::DebugLine::from(mk(case.sec("debug_line")));
                ctx.sim.arm(FaultPlan::None);
                if let Ok(prog) = sec.program(gimli::DebugLineOffset(0), asz, None, None) {
                    let pr = &prog;
                    clone_check(
                        ctx,
                        "clone.line_rows",
                        &|| pr.clone().rows(),
                        &|rows| match rows.next_row() {
                            Ok(Some((_, r))) => Some(format!("{:?}", r)),
                            Ok(None) => None,
                            Err(e) => Some(format!("err {}", crate::ctx::err_name(&e))),
                        },
                        p, plan, sched, de,
                    );
                    let hd = prog.header().clone();
                    let hdr = &hd;
                    clone_check(
                        ctx,
                        "clone.line_instructions",
                        &|| hdr.instructions(),
                        &|it| match it.next_instruction(hdr) {
                            Ok(Some(i)) => Some(match i {
                                gimli::LineInstruction::UnknownStandardN(o, r) => format!("UnknownStandardN {:?} {}", o, hex(&r)),
                                gimli::LineInstruction::UnknownExtended(o, r) => format!("UnknownExtended {:?} {}", o, hex(&r)),
                                gimli::LineInstruction::DefineFile(f) => format!("DefineFile {} {} {}", f.directory_index(), f.timestamp(), f.size()),
                                o => format!("{:?}", o),
                            }),
                            Ok(None) => None,
                            Err(e) => Some(format!("err {}", crate::ctx::err_name(&e))),
                        },
                        p, plan, sched, de,
                    );
                }
            }
            5 => {
                let sec = gimli::DebugAranges::from(mk(case.sec("debug_aranges")));
                let s = &sec;
                clone_check(
                    ctx,
                    "clone.arange_headers",
                    &|| s.headers(),
                    &|it| match it.next() {
                        Ok(Some(h)) => Some(format!("{} {} {:?}", h.offset().0, h.length(), h.encoding())),
                        Ok(None) => None,
                        Err(e) => Some(format!("err {}", crate::ctx::err_name(&e))),
                    },
                    p, plan, sched, de,
                );
                ctx.sim.arm(FaultPlan::None);
                if let Ok(Some(h)) = sec.headers().next() {
                    let h = &h;
                    clone_check(ctx, "clone.arange_entries", &|| h.entries(), &|it| item(it.next()), p, plan, sched, de);
                }
                let sec = gimli::DebugAddr::from(mk(case.sec("debug_addr")));
                let s = &sec;
                clone_check(
                    ctx,
                    "clone.addr_headers",
                    &|| s.headers(),
                    &|it| match it.next() {
                        Ok(Some(h)) => Some(format!("{} {} {:?}", h.offset().0, h.length(), h.encoding())),
                        Ok(None) => None,
                        Err(e) => Some(format!("err {}", crate::ctx::err_name(&e))),
                    },
                    p, plan, sched, de,
                );
                ctx.sim.arm(FaultPlan::None);
                if let Ok(Some(h)) = sec.headers().next() {
                    let h = &h;
                    clone_check(ctx, "clone.addr_entries", &|| h.entries(), &|it| item(it.next()), p, plan, sched, de);
                }
            }
            6 => {
                let sec = gimli::DebugPubNames::from(mk(case.sec("debug_pubnames")));
                let s = &sec;
                clone_check(
                    ctx,
                    "clone.pubnames",
                    &|| s.items(),
                    &|it| match it.next() {
                        Ok(Some(e)) => Some(format!("{} {} {}", e.unit_header_offset().0, e.die_offset().0, hex(e.name()))),
                        Ok(None) => None,
                        Err(e) => Some(format!("err {}", crate::ctx::err_name(&e))),
                    },
                    p, plan, sched, de,
                );
                let sec = gimli::DebugMacinfo::from(mk(case.sec("debug_macinfo")));
                ctx.sim.arm(FaultPlan::None);
                if let Ok(it0) = sec.get_macinfo(gimli::DebugMacinfoOffset(0)) {
                    let it0 = &it0;
                    clone_check(
                        ctx,
                        "clone.macros",
                        &|| it0.clone(),
                        &|it| match it.next() {
                            Ok(Some(e)) => Some(match e {
                                gimli::MacroEntry::Define { line, text: gimli::MacroString::Direct(r) } => format!("Define {} {}", line, hex(&r)),
                                gimli::MacroEntry::Undef { line, name: gimli::MacroString::Direct(r) } => format!("Undef {} {}", line, hex(&r)),
                                gimli::MacroEntry::VendorExt { numeric, string } => format!("VendorExt {} {}", numeric, hex(&string)),
                                o => format!("{:?}", o),
                            }),
                            Ok(None) => None,
                            Err(e) => Some(format!("err {}", crate::ctx::err_name(&e))),
                        },
                        p, plan, sched, de,
                    );
                }
            }
            _ => {
                let sec = gimli::DebugNames::from(mk(case.sec("debug_names")));
                let s = &sec;
                clone_check(
                    ctx,
                    "clone.names_headers",
                    &|| s.headers(),
                    &|it| match it.next() {
                        Ok(Some(h)) => Some(format!("{} {} {} {}", h.offset().0, h.length(), h.name_count(), h.bucket_count())),
                        Ok(None) => None,
                        Err(e) => Some(format!("err {}", crate::ctx::err_name(&e))),
                    },
                    p, plan, sched, de,
                );
            }
        }
        if ctx.violation.is_some() {
            return;
        }
    }
    ctx.end();
}

fn run_resume<'a>(case: &'a Case, ctx: &mut Ctx<'_>, mk: &dyn Fn(&'a [u8]) -> FR<'a>) {
    let asz = case.knob("addr_size", 8) as u8;
    let n = case.sec("debug_line").len();
    let sec = gimli::DebugLine::from(mk(case.sec("debug_line")));
    ctx.sim.arm(FaultPlan::None);
    ctx.enter("reuse.line.program");
    let prog = match sec.program(gimli::DebugLineOffset(0), asz, None, None) {
        Ok(p) => p,
        Err(e) => {
            ctx.err(&e);
            return;
        }
    };
    // straight run, split into sequences
    let mut rows = prog.clone().rows();
    let mut segs: Vec<Vec<String>> = vec![Vec::new()];
    let mut straight_err = false;
    let mut guard = LoopGuard::new(ctx.iter_bound(n));
    ctx.enter("reuse.line.rows");
    while guard.step(ctx) {
        match rows.next_row() {
            Ok(Some((_, r))) => {
                segs.last_mut().unwrap().push(format!("{:?}", r));
                if r.end_sequence() {
                    segs.push(Vec::new());
                }
            }
            Ok(None) => break,
            Err(_) => {
                straight_err = true;
                break;
            }
        }
    }
    ctx.enter("reuse.line.sequences");
    let (complete, seqs) = match prog.sequences() {
        Ok(x) => x,
        Err(e) => {
            ctx.err(&e);
            if !straight_err {
                ctx.violate("c20_resume", "sequences() failed but the straight rows() run did not".into());
            }
            return;
        }
    };
    ctx.item();
    if straight_err {
        ctx.violate("c20_resume", "rows() failed but sequences() succeeded".into());
        return;
    }
    segs.retain(|s| s.last().map(|l| l.contains("end_sequence: true")).unwrap_or(false));
    ev!(ctx, "sequences {} segments {}", seqs.len(), segs.len());
    if seqs.len() != segs.len() {
        ctx.violate("c20_resume", format!("{} sequences but the straight run has {} terminated sequences", seqs.len(), segs.len()));
        return;
    }
    if seqs.is_empty() {
        return;
    }
    // resume in a history-chosen order, two resumed iterators interleaved
    for step in &case.steps {
        let i = (step[0] as usize) % seqs.len();
        let j = (step[1] as usize) % seqs.len();
        let mut ri = complete.resume_from(&seqs[i]);
        let mut rj = complete.resume_from(&seqs[j]);
        let (mut a, mut b) = (Vec::new(), Vec::new());
        let (mut da, mut db) = (false, false);
        let mut t = 0u64;
        ctx.enter("reuse.line.resume_from");
        while !(da && db) && t < 4 * n as u64 + 64 {
            t += 1;
            if (t % 3 != 0 && !da) || db {
                match ri.next_row() {
                    Ok(Some((_, r))) => a.push(format!("{:?}", r)),
                    _ => da = true,
                }
            } else {
                match rj.next_row() {
                    Ok(Some((_, r))) => b.push(format!("{:?}", r)),
                    _ => db = true,
                }
            }
        }
        if a != segs[i] {
            ctx.violate("c20_resume", format!("resume_from(sequence {}) yields {} rows, the straight run {} for it", i, a.len(), segs[i].len()));
            return;
        }
        if b != segs[j] {
            ctx.violate("c20_resume", format!("resume_from(sequence {}) yields {} rows, the straight run {} for it", j, b.len(), segs[j].len()));
            return;
        }
    }
    ctx.end();
}

pub fn run<'a>(case: &'a Case, ctx: &mut Ctx<'_>) {
    let endian = endian_of(case);
    let sim = ctx.sim.clone();
    let mk = move |b: &'a [u8]| FaultReader::new(EndianSlice::new(b, endian), sim.clone());
    match case.family.as_str() {
        "uctx" => match case.knob("storage", 0) {
            1 => run_uctx::<Fixed<2, 3>>(case, ctx, &mk),
            2 => run_uctx::<Fixed<4, 8>>(case, ctx, &mk),
            3 => run_uctx::<Unbounded>(case, ctx, &mk),
            _ => run_uctx::<StoreOnHeap>(case, ctx, &mk),
        },
        "entrybuf" | "cursor" | "tree" | "abbrevcache" => run_info(case, ctx, &mk),
        "clones" => run_clones(case, ctx, &mk),
        "resume" => run_resume(case, ctx, &mk),
        other => panic!("e6 family {}", other),
    }
}
