//! E3 `evalsim` (C07): the expression evaluator is a resumable coroutine; the simulator
//! plays the other party (World), supplies storage budgets, iteration limits and reader
//! faults, and checks the real evaluator against the executable reference model:
//! the sequence of Requires* events (kind + every parameter), the final result and the
//! error kind must equal the model's (strict, fault-free), or be a prefix of it (faulted).

use super::Tier;
use crate::case::Case;
use crate::ctx::Ctx;
use crate::drv::op::{run_evaluation, EvalCfg, EvalEnd, EvalFixed, SUB_NAMES};
use crate::drv::endian_of;
use crate::ev;
use crate::fault::{FaultPlan, FaultReader};
use crate::model::{Model, ModelEnd};
use crate::rng::{mix, tag, Rng};
use crate::wl::expr::{encode, offsets, random_ins, resolve_branches, valid_program, EncParams, Ins, Layout};
use crate::world::World;
use gimli::{EndianSlice, Encoding, Expression, Format, RunTimeEndian, StoreOnHeap};

// ---------------------------------------------------------------------------------------
// AST <-> Case.steps

pub fn ins_to_step(prog: usize, i: &Ins) -> Vec<i64> {
    let mut v = vec![prog as i64, i.opc as i64, i.u as i64, i.s, i.bytes.len() as i64];
    v.extend(i.bytes.iter().map(|b| *b as i64));
    v
}

pub fn progs_of(case: &Case) -> Vec<Vec<Ins>> {
    let n = 1 + case.knob("nsubs", 0) as usize;
    let mut progs: Vec<Vec<Ins>> = vec![Vec::new(); n];
    for s in &case.steps {
        if s.len() < 5 {
            continue;
        }
        let p = (s[0] as usize).min(n - 1);
        let nb = (s[4] as usize).min(s.len() - 5);
        progs[p].push(Ins { opc: s[1] as u8, u: s[2] as u64, s: s[3], bytes: s[5..5 + nb].iter().map(|b| *b as u8).collect() });
    }
    progs
}

pub fn enc_of(case: &Case) -> EncParams {
    EncParams {
        be: case.knob("be", 0) != 0,
        addr_size: case.knob("addr_size", 8) as u8,
        d64: case.knob("d64", 0) != 0,
        version: case.knob("version", 4) as u16,
    }
}

// ---------------------------------------------------------------------------------------
// generation

/// Alphabet of the exhaustive family: every no-operand arithmetic / stack / compare op,
/// boundary constants, and control flow.
fn alphabet() -> Vec<Ins> {
    let mut a: Vec<Ins> = Vec::new();
    for opc in [
        0x12u8, 0x13, 0x14, 0x16, 0x17, 0x19, 0x1a, 0x1b, 0x1c, 0x1d, 0x1e, 0x1f, 0x20, 0x21, 0x22, 0x24, 0x25, 0x26, 0x27,
        0x29, 0x2a, 0x2b, 0x2c, 0x2d, 0x2e,
    ] {
        a.push(Ins::op(opc));
    }
    a.push(Ins::op(0x30));
    a.push(Ins::op(0x31));
    a.push(Ins::op(0x4f));
    a.push(Ins::u(0x08, 0xff));
    a.push(Ins::u(0x0e, u64::MAX));
    a.push(Ins::u(0x0e, 1 << 63));
    a.push(Ins::u(0x0c, 0x8000_0000));
    a.push(Ins::s(0x11, -1));
    a.push(Ins::s(0x0b, -32768));
    a.push(Ins::u(0x23, 1));
    // skip +0 (to the next op), bra over the next op, bra/skip backwards to the start
    let mut b = Ins::op(0x2f);
    b.s = 0;
    a.push(b);
    let mut b = Ins::op(0x28);
    b.s = 1;
    a.push(b);
    let mut b = Ins::op(0x28);
    b.s = -4;
    a.push(b);
    a
}

pub fn exhaustive_count(tier: Tier) -> u64 {
    let a = alphabet().len() as u64;
    match tier {
        Tier::Quick => a + a * a,
        Tier::Thorough => a + a * a + a * a * a,
    }
}

/// The typed boundary grid: [const_type T a; const_type T b; op; stack_value] for every base
/// type, every pair of boundary literals of that type's width, every binary (and unary)
/// operation, under 8 configurations (address size x byte order).
pub const GRID_OPS: &[u8] = &[
    0x1a, 0x1b, 0x1c, 0x1d, 0x1e, 0x21, 0x22, 0x24, 0x25, 0x26, 0x27, 0x29, 0x2a, 0x2b, 0x2c, 0x2d, 0x2e, 0x19, 0x1f, 0x20,
];
const GRID_VALS: u64 = 6;

pub fn grid_count() -> u64 {
    10 * GRID_VALS * GRID_VALS * GRID_OPS.len() as u64 * 8
}

pub fn grid_literal(ty_index: usize, v: u64, be: bool) -> Vec<u8> {
    // widths of World::base_type(off) for off = 1..=10: see VALUE_TYPES[1 + off % 10]
    let ty = crate::world::VALUE_TYPES[1 + ty_index % 10];
    use gimli::ValueType::*;
    let (w, bits): (usize, u64) = match ty {
        F32 => (4, [0.0f32, 1.0, -1.0, 2.5, -1000.0, 1.0e9][v as usize].to_bits() as u64),
        F64 => (8, [0.0f64, 1.0, -1.0, 2.5, -1000.0, 1.0e9][v as usize].to_bits()),
        _ => {
            let w = match ty {
                I8 | U8 => 1,
                I16 | U16 => 2,
                I32 | U32 => 4,
                _ => 8,
            };
            let top = 1u64 << (8 * w as u32 - 1);
            (w, [0, 1, u64::MAX, top, top - 1, 2][v as usize])
        }
    };
    let mut out = Vec::new();
    for k in 0..w {
        let sh = if be { 8 * (w - 1 - k) } else { 8 * k };
        out.push((bits >> sh) as u8);
    }
    out
}

pub fn gen_case(tier: Tier, master: u64, i: u64) -> Case {
    let nex = exhaustive_count(tier);
    let mut c = Case::new("e3", "strict");
    if i >= nex && i < nex + grid_count() {
        let mut k = i - nex;
        let cfg = k % 8;
        k /= 8;
        let op = GRID_OPS[(k % GRID_OPS.len() as u64) as usize];
        k /= GRID_OPS.len() as u64;
        let (vb, va) = (k % GRID_VALS, (k / GRID_VALS) % GRID_VALS);
        let ty = 1 + (k / (GRID_VALS * GRID_VALS)) % 10;
        let be = cfg / 4 == 1;
        c.set("addr_size", [1i64, 2, 4, 8][(cfg % 4) as usize]);
        c.set("be", be as i64);
        c.set("version", 5);
        c.set("world_seed", 1);
        for v in [va, vb] {
            let mut ins = Ins::u(0xa4, ty);
            ins.bytes = grid_literal(ty as usize, v, be);
            c.steps.push(ins_to_step(0, &ins));
        }
        c.steps.push(ins_to_step(0, &Ins::op(op)));
        c.steps.push(ins_to_step(0, &Ins::op(0x9f)));
        c.note = "typed_grid".into();
        return c;
    }
    let i = if i >= nex { i - grid_count() } else { i };
    if i < nex {
        let alpha = alphabet();
        let a = alpha.len() as u64;
        let (len, mut k) = if i < a {
            (1, i)
        } else if i < a + a * a {
            (2, i - a)
        } else {
            (3, i - a - a * a)
        };
        // configuration derived from the index so that the block is seed-independent
        let mut rng = Rng::new(mix(0xe3e3, 7, i));
        c.set("addr_size", [1i64, 2, 4, 8][(i % 4) as usize]);
        c.set("be", ((i / 4) % 2) as i64);
        c.set("world_seed", (i % 97) as i64 + 1);
        c.set("enum_limits", 1);
        // three boundary operands so that binary/ternary ops have something to work on
        let consts = [
            Ins::op(0x30),
            Ins::op(0x31),
            Ins::op(0x4f),
            Ins::u(0x0e, u64::MAX),
            Ins::u(0x0e, 1 << 63),
            Ins::u(0x0c, 0x7fff_ffff),
            Ins::u(0x0c, 0x8000_0000),
            Ins::s(0x11, -2),
            Ins::u(0x0a, 0x8000),
            Ins::u(0x08, 0x80),
            Ins::u(0x10, 3),
            Ins::u(0x10, 64),
        ];
        for _ in 0..3 {
            c.steps.push(ins_to_step(0, rng.pick(&consts)));
        }
        for _ in 0..len {
            c.steps.push(ins_to_step(0, &alpha[(k % a) as usize]));
            k /= a;
        }
        c.note = "exhaustive".into();
        return c;
    }
    let mut rng = Rng::new(mix(master, tag("e3"), i));
    let be = rng.chance(1, 3);
    c.set("be", be as i64);
    let asz = *rng.pick(&[1i64, 2, 4, 4, 8, 8]);
    c.set("addr_size", asz);
    c.set("d64", rng.chance(1, 4) as i64);
    c.set("version", *rng.pick(&[2i64, 3, 4, 5]));
    c.set("world_seed", rng.below(1 << 30) as i64 + 1);
    c.set("chaos", if rng.chance(1, 4) { rng.below(6) as i64 } else { 0 });
    c.set("storage", *rng.pick(&[0i64, 0, 0, 1, 2, 3]));
    if rng.chance(1, 4) {
        c.set("has_init", 1);
        c.set("init", rng.interesting() as i64);
    }
    if rng.chance(1, 3) {
        c.set("has_obj", 1);
        c.set("obj", rng.interesting() as i64);
    }
    let p = enc_of(&c);
    let nsubs = rng.usize(4);
    c.set("nsubs", nsubs as i64);
    let kind = rng.below(10);
    let main = if kind < 7 {
        c.note = "valid".into();
        let ml = if rng.chance(1, 3) { 40 } else { 14 };
        valid_program(&mut rng, ml, &p, true)
    } else if kind < 9 {
        // every opcode byte with random / boundary operands, after a few pushes
        c.note = "opcode".into();
        let mut v = vec![Ins::op(0x31), Ins::u(0x10, rng.interesting()), Ins::op(0x32)];
        let mut ins = random_ins(&mut rng, 4);
        ins.opc = rng.next() as u8;
        if matches!(crate::wl::expr::layout(ins.opc), Layout::Branch) {
            ins.bytes.clear();
            ins.s = 0;
        }
        v.push(ins);
        resolve_branches(&mut v, &p);
        v
    } else {
        c.note = "random".into();
        let mut v: Vec<Ins> = (0..rng.usize(10)).map(|_| random_ins(&mut rng, 10)).collect();
        resolve_branches(&mut v, &p);
        v
    };
    for ins in &main {
        c.steps.push(ins_to_step(0, ins));
    }
    for k in 0..nsubs {
        let sp = if rng.chance(1, 6) { Vec::new() } else { valid_program(&mut rng, 5, &p, false) };
        for ins in &sp {
            c.steps.push(ins_to_step(k + 1, ins));
        }
    }
    c.set("max_iter", if rng.chance(1, 6) { rng.below(12) as i64 } else { 300 });
    // faulted configurations run separately from the strict ones
    if rng.chance(1, 4) {
        c.family = "faulted".into();
        match rng.below(3) {
            0 => c.fault = vec![1, rng.below(80) as i64, rng.chance(1, 3) as i64],
            1 => c.fault = vec![2, rng.below(80) as i64, rng.chance(1, 3) as i64],
            _ => {
                c.set("abandon", rng.below(5) as i64);
            }
        }
    }
    c
}

// ---------------------------------------------------------------------------------------
// execution

type FR<'a> = FaultReader<EndianSlice<'a, RunTimeEndian>>;

fn caps(storage: i64) -> (usize, usize, usize) {
    match storage {
        1 => (3, 1, 1),
        2 => (8, 2, 2),
        3 => (64, 4, 4),
        _ => (usize::MAX, usize::MAX, usize::MAX),
    }
}

struct RealOut {
    end: EvalEnd,
    trace: Vec<String>,
}

fn run_real<'a>(
    ctx: &mut Ctx<'_>,
    case: &'a Case,
    bytes: &'a [Vec<u8>],
    enc: Encoding,
    world: &World,
    cfg: &EvalCfg,
    plan: FaultPlan,
) -> RealOut {
    let endian = endian_of(case);
    let sim = ctx.sim.clone();
    let mk = move |b: &'a [u8]| -> FR<'a> { FaultReader::new(EndianSlice::new(b, endian), sim.clone()) };
    // nested expressions are handed out from the encoded sub-programs
    let mk_sub = |b: &'a [u8]| -> FR<'a> {
        // run_evaluation asks for case.sec(SUB_NAMES[k]); the E3 case keeps ASTs, so map the
        // (empty) section request onto the encoded bytes by pointer identity of the name slot
        mk(b)
    };
    let _ = mk_sub;
    let mut trace = Vec::new();
    ctx.sim.arm(plan);
    let expr = mk(&bytes[0]);
    let end = match case.knob("storage", 0) {
        1 => run_evaluation::<FR<'a>, EvalFixed<3, 1, 1>>(ctx, "eval", &mk, case, expr, enc, world, cfg, &mut trace),
        2 => run_evaluation::<FR<'a>, EvalFixed<8, 2, 2>>(ctx, "eval", &mk, case, expr, enc, world, cfg, &mut trace),
        3 => run_evaluation::<FR<'a>, EvalFixed<64, 4, 4>>(ctx, "eval", &mk, case, expr, enc, world, cfg, &mut trace),
        _ => run_evaluation::<FR<'a>, StoreOnHeap>(ctx, "eval", &mk, case, expr, enc, world, cfg, &mut trace),
    };
    ctx.sim.arm(FaultPlan::None);
    RealOut { end, trace }
}

fn compare(ctx: &mut Ctx<'_>, what: &str, real: &RealOut, model_end: &ModelEnd, model_trace: &[String], strict: bool, prog_text: &str) -> bool {
    let (real_body, real_err): (&[String], Option<&str>) = match real.trace.last() {
        Some(l) if l.starts_with("error ") => (&real.trace[..real.trace.len() - 1], Some(l.as_str())),
        _ => (&real.trace[..], None),
    };
    let fail = |ctx: &mut Ctx<'_>, kind: &str, msg: String| {
        ctx.violate(kind, format!("{} [{}]: {}", what, prog_text, msg));
        false
    };
    let diff = |a: &[String], b: &[String]| -> String {
        for (i, (x, y)) in a.iter().zip(b.iter()).enumerate() {
            if x != y {
                return format!("event {}: evaluator `{}` vs model `{}`", i, x, y);
            }
        }
        format!("evaluator has {} events, model {}: next evaluator={:?} model={:?}", a.len(), b.len(), a.get(b.len().min(a.len())), b.get(a.len().min(b.len())))
    };
    match model_end {
        ModelEnd::Unmodelled(w) => {
            ev!(ctx, "unmodelled: {}", w);
            ctx.probe("e3_unmodelled");
            true
        }
        ModelEnd::Complete => match &real.end {
            EvalEnd::Complete => {
                if real_body != model_trace {
                    return fail(ctx, "c07_result", diff(real_body, model_trace));
                }
                true
            }
            EvalEnd::Error(e) => {
                if strict {
                    return fail(ctx, "c07_spurious_error", format!("evaluator failed with {:?} after {} events but the model completes: {}", crate::ctx::err_name(e), real_body.len(), diff(real_body, model_trace)));
                }
                // faulted: the log must be a prefix of the model's
                if real_body.len() > model_trace.len() || real_body != &model_trace[..real_body.len()] {
                    return fail(ctx, "c07_prefix", diff(real_body, model_trace));
                }
                true
            }
            EvalEnd::Abandoned | EvalEnd::SuspensionCap => {
                if real_body.len() > model_trace.len() || real_body != &model_trace[..real_body.len()] {
                    return fail(ctx, "c07_prefix", diff(real_body, model_trace));
                }
                true
            }
        },
        ModelEnd::Error(kinds) => match &real.end {
            EvalEnd::Complete => fail(ctx, "c07_missed_error", format!("model stops with {:?} after {} events but the evaluator completed: {}", kinds, model_trace.len(), diff(real_body, model_trace))),
            EvalEnd::Error(e) => {
                let name = crate::ctx::err_name(e);
                let injected = matches!(e, gimli::Error::Io) || (matches!(e, gimli::Error::UnexpectedEof(_)) && !strict);
                if injected && !strict {
                    if real_body.len() > model_trace.len() || real_body != &model_trace[..real_body.len()] {
                        return fail(ctx, "c07_prefix", diff(real_body, model_trace));
                    }
                    return true;
                }
                if real_body != model_trace {
                    return fail(ctx, "c07_requests", format!("both stop with an error ({} vs {:?}) but after different events: {}", name, kinds, diff(real_body, model_trace)));
                }
                if !kinds.contains(&name) {
                    return fail(ctx, "c07_error_kind", format!("evaluator reports {} where the model expects {:?} (after {} events)", name, kinds, model_trace.len()));
                }
                let _ = real_err;
                true
            }
            EvalEnd::Abandoned | EvalEnd::SuspensionCap => {
                if real_body.len() > model_trace.len() || real_body != &model_trace[..real_body.len()] {
                    return fail(ctx, "c07_prefix", diff(real_body, model_trace));
                }
                true
            }
        },
    }
}

pub fn run(case: &Case, ctx: &mut Ctx<'_>) {
    let p = enc_of(case);
    let progs = progs_of(case);
    let bytes: Vec<Vec<u8>> = progs.iter().map(|pr| encode(pr, &p)).collect();
    // the nested expressions are handed to the evaluator from the encoded sub-programs
    let mut sub_case = case.clone();
    for k in 1..bytes.len().min(1 + SUB_NAMES.len()) {
        sub_case.put(SUB_NAMES[k - 1], bytes[k].clone());
    }
    run_inner(&sub_case, &bytes, &progs, p, ctx);
}

fn run_inner<'a>(case: &'a Case, bytes_ref: &'a [Vec<u8>], progs: &[Vec<Ins>], p: EncParams, ctx: &mut Ctx<'_>) {
    let bytes = bytes_ref;
    let sub_case_ref = case;
    let progs = progs.to_vec();
    let enc = Encoding {
        address_size: p.addr_size,
        format: if p.d64 { Format::Dwarf64 } else { Format::Dwarf32 },
        version: p.version,
    };
    let mut world = World::new(case.knob("world_seed", 1) as u64, p.addr_size);
    world.chaos = case.knob("chaos", 0) as u64;
    for b in &bytes[1..] {
        world.subs.push(b.clone());
    }
    let prog_text = format!("{} ops, bytes {}", progs[0].len(), crate::case::hex(&bytes[0][..bytes[0].len().min(48)]));
    ev!(ctx, "program {}", prog_text);
    let strict = case.family == "strict";
    let plan = if strict { FaultPlan::None } else { FaultPlan::from_vec(&case.fault) };
    let (scap, ccap, pcap) = caps(case.knob("storage", 0));
    let initial = if case.knob("has_init", 0) != 0 { Some(case.knob("init", 0) as u64) } else { None };
    let object = if case.knob("has_obj", 0) != 0 { Some(case.knob("obj", 0) as u64) } else { None };

    // 1. decoding: the operation iterator must split the bytes exactly where the encoder did
    {
        let endian = endian_of(case);
        let sim = ctx.sim.clone();
        let r: FR<'a> = FaultReader::new(EndianSlice::new(&bytes_ref[0], endian), sim);
        let expr = Expression(r);
        let offs = offsets(&progs[0], &p);
        let mut it = expr.clone().operations(enc);
        ctx.sim.arm(FaultPlan::None);
        ctx.enter("decode.operations.next");
        for k in 0..progs[0].len() {
            match it.next() {
                Ok(Some(_)) => {
                    ctx.item();
                    let at = it.offset_from(&expr);
                    if at != offs[k + 1] {
                        ctx.violate("c07_decode_size", format!("[{}]: operation {} (opcode {:#x}) decoded as {} bytes, encoded as {}", prog_text, k, progs[0][k].opc, at - offs[k], offs[k + 1] - offs[k]));
                        return;
                    }
                }
                Ok(None) => {
                    ctx.violate("c07_decode_size", format!("[{}]: iterator ended after {} of {} operations", prog_text, k, progs[0].len()));
                    return;
                }
                Err(_) => break, // invalid operation: the evaluation comparison decides which error
            }
        }
    }

    // 2. evaluation against the model, for one or several iteration limits
    let limits: Vec<Option<u32>> = if case.knob("enum_limits", 0) != 0 {
        // model run without limit first to learn K
        let mut m = Model::new(&world, p, &progs);
        m.object_address = object;
        m.max_iterations = Some(64);
        let _ = m.run(initial);
        let k = m.iterations.min(12) as u32;
        let mut v: Vec<Option<u32>> = vec![None];
        v.extend((0..=k + 1).map(Some));
        v
    } else {
        let mi = case.knob("max_iter", 300);
        vec![if mi < 0 { None } else { Some(mi as u32) }]
    };
    for limit in limits {
        let limit = if limit.is_none() && case.knob("enum_limits", 0) != 0 { Some(64) } else { limit };
        let mut m = Model::new(&world, p, &progs);
        m.object_address = object;
        m.max_iterations = limit.map(|x| x as u64);
        m.stack_cap = scap;
        m.call_cap = ccap;
        m.piece_cap = pcap;
        let mend = m.run(initial);
        let cfg = EvalCfg {
            max_iterations: limit,
            initial_value: initial,
            object_address: object,
            abandon_at: if case.knob("abandon", -1) >= 0 { Some(case.knob("abandon", 0) as u64) } else { None },
            max_suspensions: 10_000,
        };
        let real = run_real(ctx, sub_case_ref, bytes_ref, enc, &world, &cfg, plan);
        for l in &real.trace {
            ev!(ctx, "  {}", l);
        }
        ev!(ctx, "limit {:?} model_end {:?} iterations {}", limit, mend, m.iterations);
        if matches!(mend, ModelEnd::Error(ref k) if k.contains(&"TooManyIterations")) {
            ctx.probe("e3_iteration_limit_hit");
        }
        if real.trace.iter().filter(|l| l.starts_with("at_location")).count() >= 2 {
            ctx.probe("e3_nested_calls_2plus");
        }
        if matches!(mend, ModelEnd::Complete) && real.trace.iter().any(|l| l.starts_with("piece size=Some")) {
            ctx.probe("e3_composite_location");
        }
        let what = format!("limit={:?} storage={} addr_size={}", limit, case.knob("storage", 0), p.addr_size);
        if !compare(ctx, &what, &real, &mend, &m.trace, strict, &prog_text) {
            return;
        }
    }
    ctx.end();
}
