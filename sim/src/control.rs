//! Controller: plans batches, forks workers, attributes crashes, merges statistics,
//! matches known findings, writes replay files and evidence, decides the exit code.

use crate::case::Case;
use crate::engines::{self, Batch, Tier};
use crate::rng::{tag, DEFAULT_SEED};
use crate::stats::merge;
use crate::{harness_error, parse_u64, Args};
use serde_json::{json, Map, Value};
use std::collections::{BTreeMap, HashSet};
use std::io::{BufRead, BufReader};
use std::path::{Path, PathBuf};
use std::process::{Command, Stdio};
use std::time::Instant;

pub fn verif_root() -> PathBuf {
    if let Ok(r) = std::env::var("VERIF_ROOT") {
        return PathBuf::from(r);
    }
    // <root>/sim/target/<profile>/simctl
    if let Ok(exe) = std::env::current_exe() {
        if let Some(root) = exe.ancestors().nth(4) {
            if root.join("properties.jsonl").exists() {
                return root.to_path_buf();
            }
        }
    }
    PathBuf::from("/verif")
}

fn bin_for(profile: &str) -> PathBuf {
    let exe = std::env::current_exe().unwrap_or_else(|e| harness_error(&format!("current_exe: {}", e)));
    let target = exe.parent().and_then(|p| p.parent()).unwrap_or(Path::new("."));
    let p = target.join(profile).join("simctl");
    if !p.exists() {
        harness_error(&format!("worker binary {} missing (build both profiles first)", p.display()));
    }
    p
}

pub fn seed_from(args: &Args) -> u64 {
    if let Some(s) = args.get("seed") {
        return parse_u64(s).unwrap_or_else(|| harness_error("bad --seed"));
    }
    match std::env::var("VERIF_SEED") {
        Ok(s) if !s.trim().is_empty() => parse_u64(s.trim()).unwrap_or_else(|| harness_error("bad VERIF_SEED")),
        _ => DEFAULT_SEED,
    }
}

#[derive(Default)]
pub struct BatchResult {
    pub totals: Value,
    /// class -> violation record with the lowest run index
    pub violations: BTreeMap<String, Value>,
    pub class_counts: BTreeMap<String, u64>,
    pub samples: Vec<Value>,
    pub wall_s: f64,
    /// worker processes that died inside a run (their per-index records are lost)
    pub crashes: u64,
}

struct WorkerEnd {
    stats: Option<Value>,
    violations: Vec<Value>,
    crashes: Vec<Value>,
}

#[allow(clippy::too_many_arguments)]
fn drive_worker(
    bin: &Path,
    prop: &str,
    tier: Tier,
    b: &Batch,
    seed: u64,
    w: u64,
    nw: u64,
    start0: u64,
    out_dir: &Path,
    tagname: &str,
    per_index: bool,
) -> WorkerEnd {
    let mut end = WorkerEnd { stats: None, violations: Vec::new(), crashes: Vec::new() };
    let mut start = start0;
    let mut respawns = 0;
    let mut merged_stats: Option<Value> = None;
    loop {
        let mut cmd = Command::new(bin);
        cmd.arg("worker")
            .args(["--prop", prop, "--tier", tier.name(), "--engine", b.engine])
            .args(["--seed", &seed.to_string(), "--runs", &b.runs.to_string()])
            .args(["--w", &w.to_string(), "--nw", &nw.to_string(), "--start", &start.to_string()])
            .args(["--out", &out_dir.to_string_lossy(), "--tag", &format!("{}.r{}", tagname, respawns)])
            .stdout(Stdio::piped());
        // a dying worker's last words (allocation failure, stack overflow, backtraces) go to a
        // log file, not to the console: the verdict is what the controller prints
        match std::fs::OpenOptions::new().create(true).append(true).open(out_dir.join("workers.stderr")) {
            Ok(f) => {
                cmd.stderr(Stdio::from(f));
            }
            Err(_) => {
                cmd.stderr(Stdio::null());
            }
        }
        if per_index {
            cmd.arg("--per-index");
        }
        let mut child = cmd.spawn().unwrap_or_else(|e| harness_error(&format!("spawn worker: {}", e)));
        let rd = BufReader::new(child.stdout.take().unwrap());
        let mut last_b: Option<u64> = None;
        let mut watchdog = false;
        let mut got_s = false;
        for line in rd.lines() {
            let line = match line {
                Ok(l) => l,
                Err(_) => break,
            };
            if let Some(r) = line.strip_prefix("B ") {
                last_b = r.trim().parse().ok();
            } else if let Some(r) = line.strip_prefix("V ") {
                match serde_json::from_str::<Value>(r) {
                    Ok(v) => end.violations.push(v),
                    Err(e) => harness_error(&format!("bad V line: {}", e)),
                }
            } else if let Some(r) = line.strip_prefix("S ") {
                match serde_json::from_str::<Value>(r) {
                    Ok(v) => {
                        match &mut merged_stats {
                            Some(m) => merge(m, &v),
                            None => merged_stats = Some(v),
                        }
                        got_s = true;
                    }
                    Err(e) => harness_error(&format!("bad S line: {}", e)),
                }
            } else if line.starts_with("W ") {
                watchdog = true;
            } else if line.starts_with("X ") {
                harness_error(&format!("worker: {}", line));
            }
        }
        let status = child.wait().unwrap_or_else(|e| harness_error(&format!("wait: {}", e)));
        if got_s && status.success() {
            break;
        }
        if status.code() == Some(2) {
            harness_error("worker reported a harness error");
        }
        // the worker died inside a run
        let idx = match last_b {
            Some(i) => i,
            None => harness_error(&format!("worker {} died before its first run: {:?}", w, status)),
        };
        use std::os::unix::process::ExitStatusExt;
        end.crashes.push(json!({
            "index": idx,
            "signal": status.signal(),
            "code": status.code(),
            "watchdog": watchdog,
            "profile": b.profile,
        }));
        respawns += 1;
        if respawns > 40 {
            break;
        }
        start = idx + 1;
        if start >= b.runs {
            break;
        }
    }
    end.stats = merged_stats;
    end
}

/// Re-execute one index alone in a fresh child to confirm a crash; returns the
/// (class, case json) if it dies again.
enum Solo {
    /// the index dies again when run alone: (class, case, detail)
    Died(String, Value, String),
    /// the index completes alone but reports violations: the worker died while
    /// minimising one of them (a shrunk variant aborts the process)
    Violations(Vec<(String, Value)>),
    Clean,
}

fn confirm_crash(bin: &Path, prop: &str, tier: Tier, b: &Batch, seed: u64, crash: &Value) -> Solo {
    let idx = crash["index"].as_u64().unwrap_or(0);
    let mut child = Command::new(bin)
        .arg("one")
        .args(["--prop", prop, "--tier", tier.name(), "--engine", b.engine])
        .args(["--seed", &seed.to_string(), "--index", &idx.to_string()])
        .stdout(Stdio::piped())
        .stderr(Stdio::null())
        .spawn()
        .unwrap_or_else(|e| harness_error(&format!("spawn one: {}", e)));
    let rd = BufReader::new(child.stdout.take().unwrap());
    let mut last_case: Option<Value> = None;
    let mut execs: Vec<Value> = Vec::new();
    let mut results: Option<Value> = None;
    let mut finished = false;
    let t0 = Instant::now();
    // a hang is confirmed by a generous wall-clock limit enforced here
    let pid = child.id();
    let killer = std::thread::spawn(move || {
        // a hang is a run that burns CPU: 60 s of CPU time (not wall-clock time, which says
        // nothing on a loaded machine); one hour of wall-clock as the last backstop
        let t = Instant::now();
        loop {
            std::thread::sleep(std::time::Duration::from_millis(200));
            if unsafe { libc::kill(pid as i32, 0) } != 0 {
                return false;
            }
            let cpu_s = std::fs::read_to_string(format!("/proc/{}/stat", pid))
                .ok()
                .and_then(|st| {
                    let rest = st.rsplit_once(") ")?.1.to_string();
                    let f: Vec<&str> = rest.split(' ').collect();
                    let ut: u64 = f.get(11)?.parse().ok()?;
                    let stt: u64 = f.get(12)?.parse().ok()?;
                    let hz = unsafe { libc::sysconf(libc::_SC_CLK_TCK) }.max(1) as u64;
                    Some((ut + stt) / hz)
                })
                .unwrap_or(0);
            if cpu_s >= 60 || t.elapsed().as_secs() > 3600 {
                break;
            }
        }
        unsafe { libc::kill(pid as i32, libc::SIGKILL) };
        true
    });
    for line in rd.lines().map_while(|l| l.ok()) {
        if let Some(r) = line.strip_prefix("C ") {
            last_case = serde_json::from_str(r).ok();
        } else if let Some(r) = line.strip_prefix("E ") {
            last_case = serde_json::from_str(r).ok();
            execs.extend(last_case.clone());
        } else if let Some(r) = line.strip_prefix("R ") {
            results = serde_json::from_str(r).ok();
            finished = true;
        }
    }
    let status = child.wait().unwrap_or_else(|e| harness_error(&format!("wait one: {}", e)));
    let killed = killer.join().unwrap_or(false);
    let _ = t0;
    if finished && status.success() {
        let mut v = Vec::new();
        if let Some(Value::Array(rs)) = results {
            for (r, c) in rs.iter().zip(execs.iter()) {
                if let Some(class) = r["class"].as_str() {
                    if crate::engines::class_belongs(prop, class) {
                        v.push((class.to_string(), c.clone()));
                    }
                }
            }
        }
        return if v.is_empty() { Solo::Clean } else { Solo::Violations(v) };
    }
    use std::os::unix::process::ExitStatusExt;
    let case = last_case.unwrap_or(json!(null));
    let family = case["family"].as_str().unwrap_or("?").to_string();
    let class = if killed {
        format!("hang_wallclock@{}", family)
    } else {
        format!("abort@{}:signal={:?}", family, status.signal())
    };
    let detail = format!(
        "process died executing run index {} alone (signal {:?}, exit {:?}, killed_after_60s={})",
        idx,
        status.signal(),
        status.code(),
        killed
    );
    Solo::Died(class, case, detail)
}

#[allow(clippy::too_many_arguments)]
pub fn run_batch(
    prop: &str,
    tier: Tier,
    b: &Batch,
    seed: u64,
    nw: u64,
    start: u64,
    out_dir: &Path,
    tagname: &str,
    per_index: bool,
) -> BatchResult {
    let t0 = Instant::now();
    let bin = bin_for(b.profile);
    let mut handles = Vec::new();
    for w in 0..nw {
        let (bin, prop, b, out_dir, tagname) =
            (bin.clone(), prop.to_string(), b.clone(), out_dir.to_path_buf(), format!("{}.w{}of{}", tagname, w, nw));
        handles.push(std::thread::spawn(move || {
            drive_worker(&bin, &prop, tier, &b, seed, w, nw, start, &out_dir, &tagname, per_index)
        }));
    }
    let mut res = BatchResult { totals: json!({}), ..Default::default() };
    for h in handles {
        let end = h.join().unwrap_or_else(|_| harness_error("controller thread panicked"));
        if let Some(s) = &end.stats {
            merge(&mut res.totals, &s["totals"]);
            if let Some(m) = s["classes"].as_object() {
                for (k, v) in m {
                    *res.class_counts.entry(k.clone()).or_default() += v.as_u64().unwrap_or(0);
                }
            }
            if let Some(a) = s["samples"].as_array() {
                for x in a {
                    if res.samples.len() < 5 {
                        res.samples.push(x.clone());
                    }
                }
            }
        }
        for mut v in end.violations {
            v["profile"] = json!(b.profile);
            let class = v["class"].as_str().unwrap_or("").to_string();
            let idx = v["index"].as_u64().unwrap_or(u64::MAX);
            let replace = match res.violations.get(&class) {
                Some(old) => idx < old["index"].as_u64().unwrap_or(u64::MAX),
                None => true,
            };
            if replace {
                res.violations.insert(class, v);
            }
        }
        res.crashes += end.crashes.len() as u64;
        for c in end.crashes {
            match confirm_crash(&bin, prop, tier, b, seed, &c) {
                Solo::Violations(vs) => {
                    let idx = c["index"].as_u64().unwrap_or(0);
                    for (class, case) in vs {
                        *res.class_counts.entry(class.clone()).or_default() += 1;
                        let replace = match res.violations.get(&class) {
                            Some(old) => idx < old["index"].as_u64().unwrap_or(u64::MAX),
                            None => true,
                        };
                        if replace {
                            res.violations.insert(
                                class.clone(),
                                json!({"index": idx, "class": class,
                                   "detail": "reported unminimised: the worker process died while shrinking this case (a shrunk variant aborts the process)",
                                   "case": case, "profile": b.profile, "reproduced": true, "min_execs": 0, "events_tail": []}),
                            );
                        }
                    }
                }
                Solo::Died(class, case, detail) => {
                    *res.class_counts.entry(class.clone()).or_default() += 1;
                    let idx = c["index"].as_u64().unwrap_or(0);
                    let replace = match res.violations.get(&class) {
                        Some(old) => idx < old["index"].as_u64().unwrap_or(u64::MAX),
                        None => true,
                    };
                    if replace {
                        res.violations.insert(
                            class.clone(),
                            json!({"index": idx, "class": class, "detail": detail, "case": case,
                               "profile": b.profile, "reproduced": true, "min_execs": 0, "events_tail": []}),
                        );
                    }
                }
                Solo::Clean if c["watchdog"].as_bool() == Some(true) => {
                    // the CPU-time watchdog fired but the run alone finishes well inside the
                    // limit: nothing was observed of gimli (the worker was restarted after
                    // this index and the index itself has just been executed alone)
                    eprintln!("NOTE: watchdog fired in run {} but the run alone completes; continuing", c["index"]);
                }
                Solo::Clean => harness_error(&format!(
                    "worker died in run {} but the run alone completes: nondeterministic crash ({})",
                    c["index"], c
                )),
            }
        }
    }
    res.wall_s = t0.elapsed().as_secs_f64();
    res
}

fn read_distinct(out_dir: &Path, set: &mut HashSet<u64>) {
    if let Ok(rd) = std::fs::read_dir(out_dir) {
        for e in rd.flatten() {
            let name = e.file_name().to_string_lossy().to_string();
            if name.starts_with("distinct.") && name.contains(".main.") {
                if let Ok(b) = std::fs::read(e.path()) {
                    for c in b.chunks_exact(8) {
                        set.insert(u64::from_le_bytes(c.try_into().unwrap()));
                    }
                }
            }
        }
    }
}

fn read_per_index(out_dir: &Path, tagpart: &str) -> BTreeMap<(u64, u64), u64> {
    let mut m = BTreeMap::new();
    if let Ok(rd) = std::fs::read_dir(out_dir) {
        for e in rd.flatten() {
            let name = e.file_name().to_string_lossy().to_string();
            if name.starts_with("perindex.") && name.contains(tagpart) {
                if let Ok(s) = std::fs::read_to_string(e.path()) {
                    for l in s.lines() {
                        let mut it = l.split(' ');
                        let i: u64 = it.next().and_then(|x| x.parse().ok()).unwrap_or(0);
                        let sub: u64 = it.next().and_then(|x| x.parse().ok()).unwrap_or(0);
                        let d = it.next().and_then(|x| u64::from_str_radix(x, 16).ok()).unwrap_or(0);
                        m.insert((i, sub), d);
                    }
                }
            }
        }
    }
    m
}

pub struct Known {
    pub findings: Vec<Value>,
}

pub fn load_known(root: &Path) -> Known {
    let p = root.join("known_findings.json");
    match std::fs::read_to_string(&p) {
        Ok(s) => {
            let v: Value = serde_json::from_str(&s).unwrap_or_else(|e| harness_error(&format!("{}: {}", p.display(), e)));
            Known { findings: v["findings"].as_array().cloned().unwrap_or_default() }
        }
        Err(_) => Known { findings: Vec::new() },
    }
}

impl Known {
    pub fn lookup(&self, prop: &str, class: &str) -> Option<&Value> {
        self.findings
            .iter()
            .find(|f| f["property"].as_str() == Some(prop) && f["class"].as_str() == Some(class))
    }
}

pub fn class_hash(class: &str) -> String {
    format!("{:012x}", tag(class) & 0xffff_ffff_ffff)
}

pub fn check(args: &Args) -> i32 {
    let prop = match args.pos.get(1) {
        Some(p) => p.clone(),
        None => harness_error("check <PROP>"),
    };
    let tier_s = args
        .get("tier")
        .map(|s| s.to_string())
        .or_else(|| std::env::var("VERIF_TIER").ok().filter(|s| !s.is_empty()))
        .unwrap_or_else(|| "quick".into());
    let tier = Tier::parse(&tier_s).unwrap_or_else(|| harness_error("bad tier"));
    let seed = seed_from(args);
    let nw = args.u64(
        "workers",
        std::thread::available_parallelism().map(|n| n.get() as u64).unwrap_or(8),
    );
    let scale_pct = args.u64("scale-pct", 100);
    let spec = engines::spec(&prop, tier).unwrap_or_else(|| harness_error(&format!("property {} has no check", prop)));
    let root = verif_root();
    let out_dir = root.join("sim/target/tmp").join(format!("{}-{}", prop, std::process::id()));
    let _ = std::fs::remove_dir_all(&out_dir);
    std::fs::create_dir_all(&out_dir).unwrap_or_else(|e| harness_error(&format!("mkdir {}: {}", out_dir.display(), e)));
    println!("SEED {:#x} property={} tier={} workers={}", seed, prop, tier.name(), nw);
    let t0 = Instant::now();

    let mut totals = json!({});
    let mut per_batch = Vec::new();
    let mut violations: BTreeMap<String, Value> = BTreeMap::new();
    let mut class_counts: BTreeMap<String, u64> = BTreeMap::new();
    let mut samples = Vec::new();
    let mut selftest = json!({"pairs_compared": 0, "mismatches": 0});
    for (bi, b0) in spec.batches.iter().enumerate() {
        let mut b = b0.clone();
        b.runs = (b.runs * scale_pct / 100).max(1);
        let r = run_batch(&prop, tier, &b, seed, nw, 0, &out_dir, &format!("main.b{}", bi), false);
        merge(&mut totals, &r.totals);
        per_batch.push(json!({"engine": b.engine, "profile": b.profile, "indices": b.runs,
            "wall_s": r.wall_s, "execs": r.totals["execs"], "ops": r.totals["ops"]}));
        for (k, v) in r.violations {
            violations.entry(k).or_insert(v);
        }
        for (k, v) in r.class_counts {
            *class_counts.entry(k).or_default() += v;
        }
        for s in r.samples {
            if samples.len() < 5 {
                samples.push(s);
            }
        }
        // determinism self-test: the tail of the index range, twice, with different worker counts
        let k = match tier {
            Tier::Quick => 1500.min(b.runs),
            Tier::Thorough => 60_000.min(b.runs),
        };
        let mut sb = b.clone();
        sb.runs = b.runs;
        let start = b.runs - k;
        let ta = format!("selfA.b{}", bi);
        let tb = format!("selfB.b{}", bi);
        let ra = run_batch(&prop, tier, &sb, seed, nw, start, &out_dir, &ta, true);
        let rb = run_batch(&prop, tier, &sb, seed, 3, start, &out_dir, &tb, true);
        let self_crashes = ra.crashes + rb.crashes;
        for r in [ra, rb] {
            for (k, v) in r.violations {
                violations.entry(k).or_insert(v);
            }
        }
        let ma = read_per_index(&out_dir, &ta);
        let mb = read_per_index(&out_dir, &tb);
        let mut mism = 0u64;
        // a worker that dies loses its per-index records: with crashes (each of which
        // is reported as a violation) only the indices present on both sides compare
        if self_crashes == 0 && (ma.len() != mb.len() || ma.is_empty()) {
            mism += 1;
        }
        for (k, v) in &ma {
            match mb.get(k) {
                Some(w) if w != v => mism += 1,
                None if self_crashes == 0 => mism += 1,
                _ => {}
            }
        }
        selftest["pairs_compared"] = json!(selftest["pairs_compared"].as_u64().unwrap_or(0) + ma.len() as u64);
        selftest["mismatches"] = json!(selftest["mismatches"].as_u64().unwrap_or(0) + mism);
        if mism > 0 && !violations.is_empty() {
            // executions that violate the property (out-of-bounds reads, aborts) need not
            // be repeatable; the violations stand and are reported with their replay files
            eprintln!(
                "NOTE: {} per-run digests differ between {} and 3 workers in a batch that also reports violations",
                mism, nw
            );
        } else if mism > 0 {
            let _ = std::fs::remove_dir_all(&out_dir);
            harness_error(&format!(
                "nondeterminism: {} of {} per-run digests differ between {} and 3 workers (batch {} {})",
                mism,
                ma.len(),
                nw,
                b.engine,
                b.profile
            ));
        }
    }
    let mut distinct = HashSet::new();
    read_distinct(&out_dir, &mut distinct);
    let _ = std::fs::remove_dir_all(&out_dir);
    let wall = t0.elapsed().as_secs_f64();

    // verdicts
    let known = load_known(&root);
    let mut n_viol = 0;
    let mut known_matched = Vec::new();
    let mut viol_out = Vec::new();
    let mut harness_bad = None;
    for (class, v) in &violations {
        if class.starts_with("HARNESS-") {
            harness_bad = Some(format!("{}: {}", class, v["detail"]));
            continue;
        }
        if let Some(k) = known.lookup(&prop, class) {
            println!(
                "KNOWN-FINDING: property={} {} [class {}; seen {}x]",
                prop,
                k["what"].as_str().unwrap_or(""),
                class,
                class_counts.get(class).copied().unwrap_or(1)
            );
            known_matched.push(json!({"class": class, "count": class_counts.get(class)}));
            continue;
        }
        n_viol += 1;
        let rp = root.join("replays").join(format!("{}-{}.json", prop, class_hash(class)));
        let _ = std::fs::create_dir_all(root.join("replays"));
        let replay = json!({
            "property": prop,
            "engine": v["case"]["engine"],
            "profile": v["profile"],
            "seed": seed,
            "tier": tier.name(),
            "index": v["index"],
            "class": class,
            "detail": v["detail"],
            "case": v["case"],
            "minimiser": {"execs": v["min_execs"], "original_bytes": v["original_case_bytes"], "minimised_bytes": v["minimised_case_bytes"], "reproduced_after_minimise": v["reproduced"]},
            "events_tail": v["events_tail"],
            "count_in_run": class_counts.get(class),
        });
        if let Err(e) = std::fs::write(&rp, serde_json::to_string_pretty(&replay).unwrap()) {
            harness_error(&format!("write {}: {}", rp.display(), e));
        }
        println!("VIOLATION property={} replay={}", prop, rp.display());
        println!("  class: {}", class);
        println!("  detail: {}", v["detail"].as_str().unwrap_or(""));
        viol_out.push(json!({"class": class, "replay": rp.to_string_lossy(), "count": class_counts.get(class)}));
    }
    if let Some(h) = harness_bad {
        harness_error(&format!("the simulator itself panicked: {}", h));
    }

    // evidence
    let execs = totals["execs"].as_u64().unwrap_or(0);
    let nontrivial_distinct = distinct.len() as u64;
    if samples.is_empty() {
        samples.push(json!({"note": "no non-trivial sample captured"}));
    }
    let evidence = json!({
        "property_id": prop,
        "tier": tier.name(),
        "seed": seed,
        "level": spec.level,
        "coverage": {
            "evaluations": execs,
            "distinct_nontrivial": nontrivial_distinct,
            "rule": spec.rule,
            "samples": samples,
            "exhaustive": spec.exhaustive,
            "run_indices": totals["indices"],
            "sim_steps_reader_ops": totals["ops"],
            "events": totals["events"],
            "runs_per_hour": if wall > 0.0 { (execs as f64 / wall * 3600.0) as u64 } else { 0 },
            "faults_configured": totals["faults_configured"],
            "faults_fired": totals["faults_fired"],
            "families": totals["families"],
            "workloads": totals["workloads"],
            "entry_points": totals["api"],
            "probes": totals["probes"],
            "distinct_api_error_fault_triples": totals["err_kinds"].as_array().map(|a| a.len()).unwrap_or(0),
            "max_stack_bytes_inside_gimli": totals["max_stack"],
            "max_single_heap_request_bytes": totals["max_alloc"],
            "heap_seam": format!("single requests > {} MiB or > {} MiB live are refused (simulated allocation failure -> abort, attributed to the run)", crate::alloc::MAX_SINGLE >> 20, crate::alloc::MAX_LIVE >> 20),
            "batches": per_batch,
            "determinism_selftest": selftest,
            "known_findings_matched": known_matched,
            "violation_classes": viol_out,
            "extra": totals["extra"],
            "real_vs_stub": {
                "real": "all of gimli (built from /repo working tree as a path dependency), in debug (opt-level 0, overflow-checks, debug-assertions) and release profiles",
                "stub": "byte storage (FaultReader over EndianSlice), section loader, evaluator environment (World), CIE provider, address map, sink writer"
            }
        },
        "assumptions": [
            "inputs <= 1 MiB; stack budget inside gimli 512 KiB per call; per-call reader-op budget 64*n+4096",
            "the simulated caller ignores errors and keeps calling but never commits documented API misuse"
        ],
        "wall_s": wall,
        "violations": n_viol,
    });
    let ep = root.join("evidence").join(format!("{}.json", prop));
    let _ = std::fs::create_dir_all(root.join("evidence"));
    if let Err(e) = std::fs::write(&ep, serde_json::to_string_pretty(&evidence).unwrap()) {
        harness_error(&format!("write {}: {}", ep.display(), e));
    }
    println!(
        "DONE property={} tier={} evaluations={} distinct_nontrivial={} violations={} known={} wall={:.1}s",
        prop,
        tier.name(),
        execs,
        nontrivial_distinct,
        n_viol,
        evidence["coverage"]["known_findings_matched"].as_array().map(|a| a.len()).unwrap_or(0),
        wall
    );
    if n_viol > 0 {
        1
    } else {
        0
    }
}

pub fn replay(args: &Args) -> i32 {
    let prop = args.pos.get(1).cloned().unwrap_or_else(|| harness_error("replay <PROP> <file>"));
    let path = args.pos.get(2).cloned().unwrap_or_else(|| harness_error("replay <PROP> <file>"));
    let txt = std::fs::read_to_string(&path).unwrap_or_else(|e| harness_error(&format!("{}: {}", path, e)));
    let v: Value = serde_json::from_str(&txt).unwrap_or_else(|e| harness_error(&format!("{}: {}", path, e)));
    let _ = Case::from_json(&v["case"]).unwrap_or_else(|e| harness_error(&format!("bad case: {}", e)));
    let expected = v["class"].as_str().unwrap_or("").to_string();
    let profiles: Vec<String> = match v["profile"].as_str() {
        Some(p) => vec![p.to_string()],
        None => vec!["debug".into(), "release".into()],
    };
    let mut code = 0;
    for profile in profiles {
        let bin = bin_for(&profile);
        let out = Command::new(&bin)
            .arg("exec-case")
            .arg(&path)
            .stderr(Stdio::null())
            .output()
            .unwrap_or_else(|e| harness_error(&format!("spawn: {}", e)));
        let stdout = String::from_utf8_lossy(&out.stdout);
        let r = stdout.lines().find_map(|l| l.strip_prefix("R ")).and_then(|r| serde_json::from_str::<Value>(r).ok());
        use std::os::unix::process::ExitStatusExt;
        let got = match &r {
            Some(r) => r["class"].as_str().map(|s| s.to_string()),
            None => Some(format!(
                "abort@{}:signal={:?}",
                v["case"]["family"].as_str().unwrap_or("?"),
                out.status.signal()
            )),
        };
        println!("REPLAY profile={} expected_class={:?} got_class={:?}", profile, expected, got);
        if let Some(r) = &r {
            if let Some(d) = r["detail"].as_str() {
                println!("  detail: {}", d);
            }
            if args.get("log").is_some() {
                println!("{}", r["log"].as_str().unwrap_or(""));
            }
        }
        if got.is_some() {
            println!("VIOLATION property={} replay={}", prop, path);
            code = 1;
        }
    }
    if code == 0 {
        println!("replay: no violation reproduced on the current tree");
    }
    let _ = Map::<String, Value>::new();
    code
}
