//! Generic case minimiser: shrink while the violation *class* persists.

use crate::case::Case;
use crate::ctx::Monitors;
use crate::engine::execute;

pub struct Minimiser<'a> {
    pub class: &'a str,
    pub mon: Monitors,
    pub budget: u32,
    pub execs: u32,
}

impl<'a> Minimiser<'a> {
    fn still_fails(&mut self, c: &Case) -> bool {
        if self.execs >= self.budget {
            return false;
        }
        self.execs += 1;
        let out = execute(c, self.mon, false);
        out.class() == Some(self.class)
    }

    pub fn run(&mut self, case: &Case) -> Case {
        let mut best = case.clone();
        // 1. drop the fault plan
        if best.fault.first().copied().unwrap_or(0) != 0 {
            let mut c = best.clone();
            c.fault = vec![0];
            if self.still_fails(&c) {
                best = c;
            } else {
                // minimise k
                loop {
                    let k = best.fault[1];
                    let mut improved = false;
                    for cand in [0, k / 2, k - 1] {
                        if cand >= 0 && cand < k {
                            let mut c = best.clone();
                            c.fault[1] = cand;
                            if self.still_fails(&c) {
                                best = c;
                                improved = true;
                                break;
                            }
                        }
                    }
                    if !improved {
                        break;
                    }
                }
            }
        }
        // 2. drop whole sections, then shrink each
        let names: Vec<String> = best.secs.keys().cloned().collect();
        for n in &names {
            if best.secs[n].is_empty() || best.engine == "e4" {
                continue;
            }
            let mut c = best.clone();
            c.secs.insert(n.clone(), Vec::new());
            if self.still_fails(&c) {
                best = c;
            }
        }
        // 3. steps: drop
        self.shrink_steps(&mut best);
        for n in &names {
            self.shrink_bytes(&mut best, n);
        }
        self.shrink_steps(&mut best);
        best
    }

    fn shrink_steps(&mut self, best: &mut Case) {
        // E4's steps are not a history: they are the generator's record of what the section
        // bytes contain (the reference of the row-boundary model) and must stay in step with them
        if best.engine == "e4" {
            return;
        }
        let mut chunk = best.steps.len().max(1) / 2;
        while chunk >= 1 && !best.steps.is_empty() {
            let mut i = 0;
            let mut any = false;
            while i < best.steps.len() {
                let mut c = best.clone();
                let end = (i + chunk).min(c.steps.len());
                c.steps.drain(i..end);
                if self.still_fails(&c) {
                    *best = c;
                    any = true;
                } else {
                    i += chunk;
                }
            }
            if !any {
                chunk /= 2;
            }
            if self.execs >= self.budget {
                return;
            }
        }
        // shrink arguments toward 0
        for si in 0..best.steps.len() {
            for ai in 1..best.steps[si].len() {
                let v = best.steps[si][ai];
                for cand in [0, v / 2] {
                    if cand != v {
                        let mut c = best.clone();
                        c.steps[si][ai] = cand;
                        if self.still_fails(&c) {
                            *best = c;
                            break;
                        }
                    }
                }
            }
        }
    }

    fn shrink_bytes(&mut self, best: &mut Case, name: &str) {
        // (see shrink_steps: E4's bytes and reference events belong together)
        if best.engine == "e4" {
            return;
        }
        // chop tail (binary search on length)
        loop {
            let len = best.secs[name].len();
            if len == 0 {
                break;
            }
            let mut improved = false;
            for keep in [len / 2, len - len / 4, len - 1] {
                if keep < len {
                    let mut c = best.clone();
                    c.secs.get_mut(name).unwrap().truncate(keep);
                    if self.still_fails(&c) {
                        *best = c;
                        improved = true;
                        break;
                    }
                }
            }
            if !improved || self.execs >= self.budget {
                break;
            }
        }
        // delete chunks (ddmin)
        let mut chunk = best.secs[name].len() / 2;
        while chunk >= 1 {
            let mut i = 0;
            let mut any = false;
            while i < best.secs[name].len() {
                let mut c = best.clone();
                let v = c.secs.get_mut(name).unwrap();
                let end = (i + chunk).min(v.len());
                v.drain(i..end);
                if self.still_fails(&c) {
                    *best = c;
                    any = true;
                } else {
                    i += chunk;
                }
                if self.execs >= self.budget {
                    return;
                }
            }
            if !any {
                chunk /= 2;
            }
        }
        // canonicalise bytes to 0
        if best.secs[name].len() <= 512 {
            for i in 0..best.secs[name].len() {
                if best.secs[name][i] != 0 {
                    let mut c = best.clone();
                    c.secs.get_mut(name).unwrap()[i] = 0;
                    if self.still_fails(&c) {
                        *best = c;
                    }
                }
            }
        }
    }
}
