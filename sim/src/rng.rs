//! The only source of randomness in the simulator: splitmix64 seeding + xoshiro256**.
//! One integer (VERIF_SEED) decides everything; logging never draws from it.

pub const DEFAULT_SEED: u64 = 0x67696d6c69;

#[inline]
pub fn splitmix64(x: &mut u64) -> u64 {
    *x = x.wrapping_add(0x9e3779b97f4a7c15);
    let mut z = *x;
    z = (z ^ (z >> 30)).wrapping_mul(0xbf58476d1ce4e5b9);
    z = (z ^ (z >> 27)).wrapping_mul(0x94d049bb133111eb);
    z ^ (z >> 31)
}

/// Mix a master seed with an engine tag and a run index into a run seed.
pub fn mix(master: u64, tag: u64, i: u64) -> u64 {
    let mut s = master ^ tag.wrapping_mul(0xd6e8feb86659fd93) ^ i.wrapping_mul(0xa0761d6478bd642f);
    let a = splitmix64(&mut s);
    let b = splitmix64(&mut s);
    a ^ b.rotate_left(17)
}

pub fn tag(s: &str) -> u64 {
    let mut h = 0xcbf29ce484222325u64;
    for b in s.bytes() {
        h ^= b as u64;
        h = h.wrapping_mul(0x100000001b3);
    }
    h
}

#[derive(Clone, Debug)]
pub struct Rng {
    s: [u64; 4],
}

impl Rng {
    pub fn new(seed: u64) -> Rng {
        let mut x = seed;
        let s = [
            splitmix64(&mut x),
            splitmix64(&mut x),
            splitmix64(&mut x),
            splitmix64(&mut x),
        ];
        Rng { s }
    }

    #[inline]
    pub fn next(&mut self) -> u64 {
        let r = self.s[1].wrapping_mul(5).rotate_left(7).wrapping_mul(9);
        let t = self.s[1] << 17;
        self.s[2] ^= self.s[0];
        self.s[3] ^= self.s[1];
        self.s[1] ^= self.s[2];
        self.s[0] ^= self.s[3];
        self.s[2] ^= t;
        self.s[3] = self.s[3].rotate_left(45);
        r
    }

    /// Uniform in [0, n). n == 0 returns 0.
    #[inline]
    pub fn below(&mut self, n: u64) -> u64 {
        if n == 0 {
            return 0;
        }
        // multiply-shift; bias is irrelevant for simulation purposes
        ((self.next() as u128 * n as u128) >> 64) as u64
    }

    #[inline]
    pub fn usize(&mut self, n: usize) -> usize {
        self.below(n as u64) as usize
    }

    /// Uniform in [lo, hi] inclusive.
    #[inline]
    pub fn range(&mut self, lo: u64, hi: u64) -> u64 {
        if hi <= lo {
            return lo;
        }
        lo + self.below(hi - lo + 1)
    }

    #[inline]
    pub fn chance(&mut self, num: u64, den: u64) -> bool {
        self.below(den) < num
    }

    #[inline]
    pub fn bool(&mut self) -> bool {
        self.next() & 1 == 1
    }

    pub fn pick<'a, T>(&mut self, xs: &'a [T]) -> &'a T {
        &xs[self.usize(xs.len())]
    }

    pub fn bytes(&mut self, n: usize) -> Vec<u8> {
        let mut v = Vec::with_capacity(n);
        while v.len() < n {
            let x = self.next().to_le_bytes();
            let k = (n - v.len()).min(8);
            v.extend_from_slice(&x[..k]);
        }
        v
    }

    /// An "interesting" u64: boundary values mixed with random ones.
    pub fn interesting(&mut self) -> u64 {
        const B: &[u64] = &[
            0,
            1,
            2,
            0x7f,
            0x80,
            0xff,
            0x100,
            0x7fff,
            0x8000,
            0xffff,
            0x10000,
            0x7fff_ffff,
            0x8000_0000,
            0xffff_fff0,
            0xffff_fffe,
            0xffff_ffff,
            0x1_0000_0000,
            1 << 61,
            (1 << 61) + 1,
            1 << 62,
            1 << 63,
            (1 << 63) - 1,
            u64::MAX - 1,
            u64::MAX,
        ];
        match self.below(4) {
            0 => *self.pick(B),
            1 => self.below(256),
            2 => {
                let b = *self.pick(B);
                b.wrapping_add(self.below(5)).wrapping_sub(2)
            }
            _ => {
                let bits = self.range(1, 64);
                if bits == 64 {
                    self.next()
                } else {
                    self.next() & ((1u64 << bits) - 1)
                }
            }
        }
    }

    /// Fork an independent stream (does not disturb self beyond one draw).
    pub fn fork(&mut self) -> Rng {
        Rng::new(self.next())
    }
}
