//! Reach counters accumulated per worker and merged by the controller.

use crate::case::Case;
use crate::engine::Outcome;
use serde_json::{json, Map, Value};
use std::collections::{BTreeMap, BTreeSet};

#[derive(Default)]
pub struct Totals {
    pub indices: u64,
    pub execs: u64,
    pub ops: u64,
    pub events: u64,
    pub items: u64,
    pub errs: u64,
    pub ends: u64,
    pub nontrivial: u64,
    pub max_stack: u64,
    pub max_alloc: u64,
    pub faults_configured: BTreeMap<String, u64>,
    pub faults_fired: BTreeMap<String, u64>,
    pub families: BTreeMap<String, u64>,
    pub api: BTreeMap<String, [u64; 4]>,
    pub probes: BTreeMap<String, u64>,
    pub err_kinds: BTreeSet<String>,
    pub notes: BTreeMap<String, u64>,
    pub extra: BTreeMap<String, u64>,
}

impl Totals {
    pub fn account(&mut self, case: &Case, out: &Outcome) {
        self.execs += 1;
        self.ops += out.ops;
        self.events += out.events;
        self.items += out.items;
        self.errs += out.errs;
        self.ends += out.ends;
        if out.nontrivial() {
            self.nontrivial += 1;
        }
        self.max_stack = self.max_stack.max(out.max_stack as u64);
        self.max_alloc = self.max_alloc.max(out.max_alloc as u64);
        let kind = crate::fault::FaultPlan::from_vec(&case.fault).kind_name();
        *self.faults_configured.entry(kind.to_string()).or_default() += 1;
        if out.fired > 0 {
            *self.faults_fired.entry(kind.to_string()).or_default() += 1;
        }
        if case.knob("fscope", 0) > 0 && kind != "none" {
            *self.faults_configured.entry("section_scoped".into()).or_default() += 1;
            if out.fired > 0 {
                *self.faults_fired.entry("section_scoped".into()).or_default() += 1;
            }
        }
        if case.knobs.contains_key("truncated_at") {
            *self.faults_configured.entry("truncation".into()).or_default() += 1;
            if out.err_kinds.iter().any(|(_, e)| *e == "UnexpectedEof") {
                *self.faults_fired.entry("truncation".into()).or_default() += 1;
            }
        }
        *self.families.entry(format!("{}/{}", case.engine, case.family)).or_default() += 1;
        for (k, a) in &out.api {
            let e = self.api.entry(k.to_string()).or_default();
            e[0] += a.calls;
            e[1] += a.items;
            e[2] += a.errs;
            e[3] += a.ends;
        }
        for p in &out.probes {
            *self.probes.entry(p.to_string()).or_default() += 1;
        }
        for (a, e) in &out.err_kinds {
            self.err_kinds.insert(format!("{}|{}|{}", a, e, kind));
        }
        // workload provenance (first token of the note)
        let n = case.note.split('+').next().unwrap_or("");
        if !n.is_empty() {
            *self.notes.entry(n.to_string()).or_default() += 1;
        }
    }

    pub fn to_json(&self) -> Value {
        let m = |b: &BTreeMap<String, u64>| -> Value {
            let mut o = Map::new();
            for (k, v) in b {
                o.insert(k.clone(), json!(v));
            }
            Value::Object(o)
        };
        let mut api = Map::new();
        for (k, v) in &self.api {
            api.insert(k.clone(), json!({"calls": v[0], "items": v[1], "errs": v[2], "ends": v[3]}));
        }
        json!({
            "indices": self.indices,
            "execs": self.execs,
            "ops": self.ops,
            "events": self.events,
            "items": self.items,
            "errs": self.errs,
            "ends": self.ends,
            "nontrivial": self.nontrivial,
            "max_stack": self.max_stack,
            "max_alloc": self.max_alloc,
            "faults_configured": m(&self.faults_configured),
            "faults_fired": m(&self.faults_fired),
            "families": m(&self.families),
            "api": api,
            "probes": m(&self.probes),
            "err_kinds": self.err_kinds.iter().collect::<Vec<_>>(),
            "workloads": m(&self.notes),
            "extra": m(&self.extra),
        })
    }
}

/// Merge b into a: numbers add (keys starting with "max_" take the max), arrays are
/// unioned as sets, objects merge recursively.
pub fn merge(a: &mut Value, b: &Value) {
    merge_key("", a, b)
}

fn merge_key(key: &str, a: &mut Value, b: &Value) {
    match (a, b) {
        (Value::Object(x), Value::Object(y)) => {
            for (k, v) in y {
                match x.get_mut(k) {
                    Some(xv) => merge_key(k, xv, v),
                    None => {
                        x.insert(k.clone(), v.clone());
                    }
                }
            }
        }
        (Value::Array(x), Value::Array(y)) => {
            let mut set: BTreeSet<String> = x.iter().map(|v| v.to_string()).collect();
            for v in y {
                if set.insert(v.to_string()) {
                    x.push(v.clone());
                }
            }
        }
        (a @ Value::Number(_), Value::Number(y)) => {
            let xa = a.as_u64().unwrap_or(0);
            let ya = y.as_u64().unwrap_or(0);
            *a = if key.starts_with("max_") { json!(xa.max(ya)) } else { json!(xa + ya) };
        }
        _ => {}
    }
}
