//! The central seam: a `Reader` wrapper through which every byte any parser sees flows.
//! It owns logical time (reader-op counter), the fault plan, the op-budget (hang) probe
//! and the stack-depth probe.

use gimli::{Error, Reader, ReaderOffsetId, Result};
use std::borrow::Cow;
use std::cell::Cell;
use std::rc::Rc;

/// Harness-owned panic payloads. A panic carrying one of these is a verdict of the
/// simulator (hang / runaway recursion / iterator never ending), not a gimli panic.
#[derive(Debug, Clone, Copy, PartialEq, Eq)]
pub enum SimAbort {
    OpBudget,
    StackBudget,
}

#[derive(Debug, Clone, Copy, PartialEq, Eq)]
pub enum FaultErr {
    Io,
    Eof,
}

#[derive(Debug, Clone, Copy, PartialEq, Eq)]
pub enum FaultPlan {
    None,
    /// Exactly the k-th fallible reader operation (0-based, counted from `arm`) fails; the
    /// reader is left untouched so a retry succeeds (EINTR-like).
    TransientAt(u64, FaultErr),
    /// Every fallible reader operation from the k-th on fails (the storage died).
    StickyFrom(u64, FaultErr),
    /// Flaky storage: from the k-th operation on, every `period`-th operation fails
    /// (k, k+period, k+2*period, ...); the operations in between succeed.
    Periodic(u64, u64, FaultErr),
    /// An outage that heals: operations k .. k+len fail, later ones succeed again.
    Burst(u64, u64, FaultErr),
}

impl FaultPlan {
    pub fn kind_name(&self) -> &'static str {
        match self {
            FaultPlan::None => "none",
            FaultPlan::TransientAt(_, FaultErr::Io) => "transient_io",
            FaultPlan::TransientAt(_, FaultErr::Eof) => "transient_eof",
            FaultPlan::StickyFrom(_, FaultErr::Io) => "sticky_io",
            FaultPlan::StickyFrom(_, FaultErr::Eof) => "sticky_eof",
            FaultPlan::Periodic(_, _, FaultErr::Io) => "periodic_io",
            FaultPlan::Periodic(_, _, FaultErr::Eof) => "periodic_eof",
            FaultPlan::Burst(_, _, FaultErr::Io) => "burst_io",
            FaultPlan::Burst(_, _, FaultErr::Eof) => "burst_eof",
        }
    }
    pub fn to_vec(&self) -> Vec<i64> {
        match *self {
            FaultPlan::None => vec![0],
            FaultPlan::TransientAt(k, e) => vec![1, k as i64, (e == FaultErr::Eof) as i64],
            FaultPlan::StickyFrom(k, e) => vec![2, k as i64, (e == FaultErr::Eof) as i64],
            FaultPlan::Periodic(k, p, e) => vec![3, k as i64, (e == FaultErr::Eof) as i64, p as i64],
            FaultPlan::Burst(k, n, e) => vec![4, k as i64, (e == FaultErr::Eof) as i64, n as i64],
        }
    }
    pub fn from_vec(v: &[i64]) -> FaultPlan {
        let e = |x: i64| if x != 0 { FaultErr::Eof } else { FaultErr::Io };
        match v.first().copied().unwrap_or(0) {
            1 => FaultPlan::TransientAt(v[1] as u64, e(v[2])),
            2 => FaultPlan::StickyFrom(v[1] as u64, e(v[2])),
            3 => FaultPlan::Periodic(v[1] as u64, (v.get(3).copied().unwrap_or(2) as u64).max(2), e(v[2])),
            4 => FaultPlan::Burst(v[1] as u64, (v.get(3).copied().unwrap_or(1) as u64).max(1), e(v[2])),
            _ => FaultPlan::None,
        }
    }
}

pub const STACK_BUDGET_DEFAULT: usize = 512 * 1024;

pub struct SimState {
    /// Logical time: fallible reader primitive calls so far (monotone over the run).
    pub ops: Cell<u64>,
    /// `ops` value at the last `arm` (fault positions are relative to it).
    arm_base: Cell<u64>,
    plan: Cell<FaultPlan>,
    pub fired: Cell<u64>,
    /// Absolute `ops` value beyond which `tick` aborts the call (hang probe).
    budget_limit: Cell<u64>,
    /// Stack probe.
    sp_base: Cell<usize>,
    pub sp_max_depth: Cell<usize>,
    pub stack_budget: Cell<usize>,
    /// Set when a SimAbort was raised, so the engine can classify even if gimli's
    /// caller swallowed the unwind (it cannot, but belt and braces).
    pub aborted: Cell<Option<SimAbort>>,
    /// While set, `tick` is a no-op (used by the harness's own logging reads).
    muted: Cell<bool>,
    /// When set, faults fire only for readers positioned inside this address range (one
    /// stored section is bad, the others are fine). Time still counts every operation.
    scope: Cell<Option<(u64, u64)>>,
}

impl SimState {
    pub fn new() -> Rc<SimState> {
        Rc::new(SimState {
            ops: Cell::new(0),
            arm_base: Cell::new(0),
            plan: Cell::new(FaultPlan::None),
            fired: Cell::new(0),
            budget_limit: Cell::new(u64::MAX),
            sp_base: Cell::new(0),
            sp_max_depth: Cell::new(0),
            stack_budget: Cell::new(STACK_BUDGET_DEFAULT),
            aborted: Cell::new(None),
            muted: Cell::new(false),
            scope: Cell::new(None),
        })
    }

    /// Install a fault plan; positions are counted from now.
    pub fn arm(&self, plan: FaultPlan) {
        self.arm_base.set(self.ops.get());
        self.plan.set(plan);
    }

    /// Confine faults to readers whose position lies in `[lo, hi]` (addresses).
    pub fn set_scope(&self, scope: Option<(u64, u64)>) {
        self.scope.set(scope);
    }

    pub fn plan(&self) -> FaultPlan {
        self.plan.get()
    }

    pub fn ops_since_arm(&self) -> u64 {
        self.ops.get() - self.arm_base.get()
    }

    /// Allow `n` more reader ops before the hang probe fires.
    pub fn set_budget(&self, n: u64) {
        self.budget_limit.set(self.ops.get().saturating_add(n));
    }

    pub fn clear_budget(&self) {
        self.budget_limit.set(u64::MAX);
    }

    /// Record the stack position of the driver right before it calls into gimli.
    #[inline(never)]
    pub fn mark_stack(&self) {
        let probe = 0u8;
        self.sp_base.set(&probe as *const u8 as usize);
    }

    pub fn mute(&self, on: bool) -> bool {
        self.muted.replace(on)
    }

    /// Stack-depth probe: how much stack lies between the driver's call into gimli and this
    /// seam call. Used by every seam the simulator owns (reader, sink writer).
    #[inline]
    pub fn probe_stack(&self) {
        if self.muted.get() {
            return;
        }
        let probe = 0u8;
        let sp = &probe as *const u8 as usize;
        let base = self.sp_base.get();
        // (under Miri locals are separate allocations: their addresses say nothing about depth)
        if !cfg!(miri) && base != 0 && sp < base {
            let depth = base - sp;
            if depth > self.sp_max_depth.get() {
                self.sp_max_depth.set(depth);
                if depth > self.stack_budget.get() {
                    self.aborted.set(Some(SimAbort::StackBudget));
                    std::panic::panic_any(SimAbort::StackBudget);
                }
            }
        }
    }

    #[inline]
    fn tick(&self, pos: impl FnOnce() -> u64) -> Option<FaultErr> {
        if self.muted.get() {
            return None;
        }
        self.probe_stack();
        let t = self.ops.get();
        self.ops.set(t + 1);
        if t >= self.budget_limit.get() {
            self.aborted.set(Some(SimAbort::OpBudget));
            // keep the limit armed: every further op of a runaway loop panics again
            std::panic::panic_any(SimAbort::OpBudget);
        }
        let rel = t - self.arm_base.get();
        let hit = match self.plan.get() {
            FaultPlan::None => None,
            FaultPlan::TransientAt(k, e) => (rel == k).then_some(e),
            FaultPlan::StickyFrom(k, e) => (rel >= k).then_some(e),
            FaultPlan::Periodic(k, p, e) => (rel >= k && (rel - k) % p == 0).then_some(e),
            FaultPlan::Burst(k, n, e) => (rel >= k && rel - k < n).then_some(e),
        };
        let e = hit?;
        if let Some((lo, hi)) = self.scope.get() {
            let p = pos();
            if p < lo || p > hi {
                return None;
            }
        }
        self.fired.set(self.fired.get() + 1);
        Some(e)
    }
}

#[derive(Clone)]
pub struct FaultReader<R: Reader> {
    pub inner: R,
    pub sim: Rc<SimState>,
}

impl<R: Reader> FaultReader<R> {
    pub fn new(inner: R, sim: Rc<SimState>) -> Self {
        FaultReader { inner, sim }
    }

    #[inline]
    fn gate(&self) -> Result<()> {
        match self.sim.tick(|| self.inner.offset_id().0) {
            None => Ok(()),
            Some(FaultErr::Io) => Err(Error::Io),
            Some(FaultErr::Eof) => Err(Error::UnexpectedEof(self.inner.offset_id())),
        }
    }
}

impl<R: Reader> std::fmt::Debug for FaultReader<R> {
    fn fmt(&self, f: &mut std::fmt::Formatter<'_>) -> std::fmt::Result {
        write!(f, "FaultReader(len={:?})", self.inner.len())
    }
}

impl<R: Reader> Reader for FaultReader<R> {
    type Endian = R::Endian;
    type Offset = R::Offset;

    #[inline]
    fn endian(&self) -> Self::Endian {
        self.inner.endian()
    }
    #[inline]
    fn len(&self) -> Self::Offset {
        self.inner.len()
    }
    #[inline]
    fn empty(&mut self) {
        self.inner.empty()
    }
    #[inline]
    fn truncate(&mut self, len: Self::Offset) -> Result<()> {
        self.gate()?;
        self.inner.truncate(len)
    }
    #[inline]
    fn offset_from(&self, base: &Self) -> Self::Offset {
        self.inner.offset_from(&base.inner)
    }
    #[inline]
    fn offset_id(&self) -> ReaderOffsetId {
        self.inner.offset_id()
    }
    #[inline]
    fn lookup_offset_id(&self, id: ReaderOffsetId) -> Option<Self::Offset> {
        self.inner.lookup_offset_id(id)
    }
    #[inline]
    fn find(&self, byte: u8) -> Result<Self::Offset> {
        self.gate()?;
        self.inner.find(byte)
    }
    #[inline]
    fn skip(&mut self, len: Self::Offset) -> Result<()> {
        self.gate()?;
        self.inner.skip(len)
    }
    #[inline]
    fn split(&mut self, len: Self::Offset) -> Result<Self> {
        self.gate()?;
        let inner = self.inner.split(len)?;
        Ok(FaultReader {
            inner,
            sim: self.sim.clone(),
        })
    }
    #[inline]
    fn to_slice(&self) -> Result<Cow<'_, [u8]>> {
        self.gate()?;
        self.inner.to_slice()
    }
    #[inline]
    fn to_string(&self) -> Result<Cow<'_, str>> {
        self.gate()?;
        self.inner.to_string()
    }
    #[inline]
    fn to_string_lossy(&self) -> Result<Cow<'_, str>> {
        self.gate()?;
        self.inner.to_string_lossy()
    }
    #[inline]
    fn read_slice(&mut self, buf: &mut [u8]) -> Result<()> {
        self.gate()?;
        self.inner.read_slice(buf)
    }
}
