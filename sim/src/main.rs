//! simctl: controller + worker of the deterministic simulator.
//!
//!   simctl check <PROP> --tier quick|thorough [--seed N] [--workers N]
//!   simctl replay <PROP> <file>
//!   simctl worker ...            (internal)
//!   simctl one ...               (internal: one index in a fresh process)
//!   simctl exec-case <file>      (internal: execute the case of a replay file)
//!
//! Exit codes: 0 held, 1 violation (VIOLATION line on stdout), 2 harness error.
#![allow(dead_code)]

mod alloc;
mod case;
mod control;
mod ctx;
mod drv;
mod engine;
mod engines;
mod fault;
mod wl;
mod world;
mod minimise;
mod model;
mod readers;
mod rng;
mod stats;
mod worker;

use std::collections::BTreeMap;

#[cfg(not(miri))]
#[global_allocator]
static GLOBAL: alloc::SimAlloc = alloc::SimAlloc;

pub struct Args {
    pub pos: Vec<String>,
    pub opt: BTreeMap<String, String>,
}

impl Args {
    fn parse() -> Args {
        let mut pos = Vec::new();
        let mut opt = BTreeMap::new();
        let mut it = std::env::args().skip(1).peekable();
        while let Some(a) = it.next() {
            if let Some(k) = a.strip_prefix("--") {
                let v = match it.peek() {
                    Some(n) if !n.starts_with("--") => it.next().unwrap(),
                    _ => String::from("1"),
                };
                opt.insert(k.to_string(), v);
            } else {
                pos.push(a);
            }
        }
        Args { pos, opt }
    }
    pub fn get(&self, k: &str) -> Option<&str> {
        self.opt.get(k).map(|s| s.as_str())
    }
    pub fn u64(&self, k: &str, d: u64) -> u64 {
        self.get(k).and_then(parse_u64).unwrap_or(d)
    }
}

pub fn parse_u64(s: &str) -> Option<u64> {
    if let Some(h) = s.strip_prefix("0x") {
        u64::from_str_radix(h, 16).ok()
    } else {
        s.parse().ok()
    }
}

pub fn harness_error(msg: &str) -> ! {
    eprintln!("HARNESS-ERROR: {}", msg);
    std::process::exit(2);
}

fn main() {
    let args = Args::parse();
    let cmd = args.pos.first().map(|s| s.as_str()).unwrap_or("");
    let code = match cmd {
        "check" => control::check(&args),
        "replay" => control::replay(&args),
        "worker" => worker::worker_main(&args),
        "one" => worker::one_main(&args),
        "slice" => worker::slice_main(&args),
        "runs" => {
            // index-space size of the first (debug) batch of a property's tier
            let prop = args.pos.get(1).cloned().unwrap_or_default();
            let tier = engines::Tier::parse(args.get("tier").unwrap_or("quick")).unwrap_or(engines::Tier::Quick);
            match engines::spec(&prop, tier) {
                Some(s) => {
                    println!("{} {}", s.batches[0].engine, s.batches[0].runs);
                    0
                }
                None => 2,
            }
        }
        "exec-case" => worker::exec_case_main(&args),
        "gen" => worker::gen_main(&args),
        _ => {
            eprintln!("usage: simctl check <PROP> --tier quick|thorough [--seed N]");
            2
        }
    };
    std::process::exit(code);
}
