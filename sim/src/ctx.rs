//! Per-run context handed to every driver: event recorder (hashed, optionally logged),
//! current-entry-point tracking (for violation classes), bounded-iteration guards,
//! invariant monitors and reach counters.

use crate::case::Case;
use crate::fault::SimState;
use gimli::{Error, Reader, ReaderOffsetId};
use std::cell::RefCell;
use std::collections::{BTreeMap, BTreeSet};
use std::fmt::Write;
use std::rc::Rc;

thread_local! {
    /// Entry point currently being driven; read by the engine after a panic.
    pub static CUR_API: RefCell<&'static str> = const { RefCell::new("") };
}

pub fn cur_api() -> &'static str {
    CUR_API.with(|c| *c.borrow())
}

#[derive(Clone, Debug)]
pub struct Violation {
    /// Stable identity: kind + entry point (+ panic file + message). No line numbers.
    pub class: String,
    pub detail: String,
}

#[derive(Default, Clone, Debug)]
pub struct ApiStat {
    pub calls: u64,
    pub items: u64,
    pub errs: u64,
    pub ends: u64,
}

pub struct Rec {
    h: u64,
    pub log: Option<String>,
    pub events: u64,
    /// side buffer for step-by-step comparisons (reuse engines)
    pub cap: Option<String>,
}

impl Rec {
    pub fn new(keep_log: bool) -> Rec {
        Rec {
            h: 0xcbf29ce484222325,
            log: if keep_log { Some(String::new()) } else { None },
            events: 0,
            cap: None,
        }
    }
    pub fn digest(&self) -> u64 {
        self.h
    }
}

impl Write for Rec {
    #[inline]
    fn write_str(&mut self, s: &str) -> std::fmt::Result {
        let mut h = self.h;
        for b in s.bytes() {
            h ^= b as u64;
            h = h.wrapping_mul(0x100000001b3);
        }
        self.h = h;
        if let Some(l) = &mut self.log {
            if l.len() < (4 << 20) {
                l.push_str(s);
            }
        }
        if let Some(c) = &mut self.cap {
            if c.len() < (1 << 20) {
                c.push_str(s);
            }
        }
        Ok(())
    }
}

/// Which invariant monitors are armed for this run (the property being checked).
#[derive(Clone, Copy, Debug, Default, PartialEq, Eq)]
pub struct Monitors {
    pub c01: bool,
    pub c04: bool,
    pub c08: bool,
}

pub struct Ctx<'c> {
    pub case: &'c Case,
    pub sim: Rc<SimState>,
    pub rec: Rec,
    pub mon: Monitors,
    pub violation: Option<Violation>,
    pub api: BTreeMap<&'static str, ApiStat>,
    pub probes: BTreeSet<&'static str>,
    pub err_kinds: BTreeSet<(&'static str, &'static str)>,
    cur: &'static str,
    /// input size used for budgets of the current family
    pub n_bytes: usize,
    pub items: u64,
    pub errs: u64,
    pub ends: u64,
    /// resolver for UnexpectedEof ids -> (section, offset); set by the driver
    pub eof_seen: u64,
}

#[macro_export]
macro_rules! ev {
    ($ctx:expr, $($arg:tt)*) => {{
        use std::fmt::Write as _;
        let _ = write!($ctx.rec, $($arg)*);
        let _ = $ctx.rec.write_str("\n");
        $ctx.rec.events += 1;
    }};
}

impl<'c> Ctx<'c> {
    pub fn new(case: &'c Case, sim: Rc<SimState>, keep_log: bool, mon: Monitors) -> Ctx<'c> {
        Ctx {
            case,
            sim,
            rec: Rec::new(keep_log),
            mon,
            violation: None,
            api: BTreeMap::new(),
            probes: BTreeSet::new(),
            err_kinds: BTreeSet::new(),
            cur: "",
            n_bytes: case.total_bytes(),
            items: 0,
            errs: 0,
            ends: 0,
            eof_seen: 0,
        }
    }

    /// Per-call reader-op budget for O(1)/O(n) calls and single iterator steps.
    pub fn linear_budget(&self) -> u64 {
        64 * self.n_bytes as u64 + 4096
    }

    /// Announce the entry point about to be called: sets the violation-class label,
    /// marks the stack base and arms the hang probe with the linear budget.
    #[inline]
    pub fn enter(&mut self, api: &'static str) {
        self.cur = api;
        CUR_API.with(|c| *c.borrow_mut() = api);
        self.api.entry(api).or_default().calls += 1;
        self.sim.set_budget(self.linear_budget());
        self.sim.mark_stack();
    }

    /// Same, with an explicit budget (for the legitimately super-linear whole-structure calls).
    pub fn enter_with_budget(&mut self, api: &'static str, budget: u64) {
        self.enter(api);
        self.sim.set_budget(budget);
    }

    pub fn cur(&self) -> &'static str {
        self.cur
    }

    pub fn probe(&mut self, p: &'static str) {
        self.probes.insert(p);
    }

    pub fn item(&mut self) {
        self.items += 1;
        if let Some(a) = self.api.get_mut(self.cur) {
            a.items += 1;
        }
    }

    pub fn end(&mut self) {
        self.ends += 1;
        if let Some(a) = self.api.get_mut(self.cur) {
            a.ends += 1;
        }
        ev!(self, "end {}", self.cur);
    }

    /// Record an error (normalising the pointer-valued EOF id) and count it.
    pub fn err(&mut self, e: &Error) {
        self.errs += 1;
        if let Some(a) = self.api.get_mut(self.cur) {
            a.errs += 1;
        }
        let name = err_name(e);
        self.err_kinds.insert((self.cur, name));
        match e {
            Error::UnexpectedEof(_) => {
                self.eof_seen += 1;
                ev!(self, "err {} UnexpectedEof", self.cur);
            }
            _ => {
                ev!(self, "err {} {:?}", self.cur, e);
            }
        }
    }

    /// Record an invariant violation (first one wins; the run continues).
    pub fn violate(&mut self, kind: &str, detail: String) {
        if self.violation.is_none() {
            self.violation = Some(Violation {
                class: format!("{}@{}", kind, self.cur),
                detail,
            });
        }
    }

    /// Start capturing events into a side buffer.
    pub fn capture_begin(&mut self) {
        self.rec.cap = Some(String::new());
    }

    /// Stop capturing and return what was captured.
    pub fn capture_end(&mut self) -> String {
        self.rec.cap.take().unwrap_or_default()
    }

    /// Bound for "iterator over n input bytes must reach its end marker".
    pub fn iter_bound(&self, n: usize) -> u64 {
        4 * n as u64 + 64 + 2
    }

    /// Log the bytes of a reader gimli handed back, by content (never by Debug, which
    /// may print pointers).
    pub fn bytes_of<R: Reader>(&mut self, what: &str, r: &R) {
        // to_slice is a fallible reader op: do not let the fault plan or the budget see it
        let was = self.sim.mute(true);
        let res = r.to_slice();
        self.sim.mute(was);
        match res {
            Ok(b) => {
                let n = b.len();
                ev!(self, "{} len={} {}", what, n, crate::case::hex(&b[..n.min(32)]));
            }
            Err(_) => {
                ev!(self, "{} <unreadable>", what);
            }
        }
    }
}

pub fn err_name(e: &Error) -> &'static str {
    // Variant name without payload, cheaply: Debug up to '('.
    // The set of variants is closed per build; intern through a small table.
    thread_local! {
        static NAMES: RefCell<BTreeMap<String, &'static str>> = RefCell::new(BTreeMap::new());
    }
    let s = format!("{:?}", e);
    let k = s.split('(').next().unwrap_or("").to_string();
    NAMES.with(|n| {
        let mut n = n.borrow_mut();
        if let Some(v) = n.get(&k) {
            v
        } else {
            let leaked: &'static str = Box::leak(k.clone().into_boxed_str());
            n.insert(k, leaked);
            leaked
        }
    })
}

/// Guard that bounds the number of driver steps of one iterator.
pub struct LoopGuard {
    left: u64,
    bound: u64,
}

impl LoopGuard {
    pub fn new(bound: u64) -> LoopGuard {
        LoopGuard { left: bound, bound }
    }
    /// Returns false (and records a liveness violation) when the bound is exhausted.
    pub fn step(&mut self, ctx: &mut Ctx<'_>) -> bool {
        if self.left == 0 {
            if ctx.mon.c01 {
                ctx.violate(
                    "liveness",
                    format!(
                        "iterator did not reach its end marker within {} calls (input {} bytes)",
                        self.bound, ctx.n_bytes
                    ),
                );
            }
            ev!(ctx, "unbounded {}", ctx.cur());
            return false;
        }
        self.left -= 1;
        true
    }
}

pub fn resolve_eof<R: Reader>(section: &R, id: ReaderOffsetId) -> Option<R::Offset> {
    section.lookup_offset_id(id)
}
