//! Reader kinds used by the reader-equivalence engine (C10): the five real readers and
//! an independent, safe cursor model that implements `Reader` itself (so that all of the
//! trait's composite default methods run over the model's primitives).

use gimli::{Endianity, Error, Reader, ReaderOffsetId, Relocate, Result, RunTimeEndian};
use std::borrow::Cow;
use std::cell::Cell;
use std::ops::Deref;
use std::rc::Rc;

thread_local! {
    pub static CB_LIVE: Cell<i64> = const { Cell::new(0) };
    pub static CB_CLONES: Cell<u64> = const { Cell::new(0) };
    pub static CB_DROPS: Cell<u64> = const { Cell::new(0) };
    pub static CB_BUFFERS_LIVE: Cell<i64> = const { Cell::new(0) };
}

/// The underlying allocation of a CountingBuf; counts its own lifetime.
#[derive(Debug)]
pub struct CbInner {
    bytes: Box<[u8]>,
}

impl Drop for CbInner {
    fn drop(&mut self) {
        CB_BUFFERS_LIVE.with(|c| c.set(c.get() - 1));
        // poison: a use after this point would read 0xdd (and Miri/ASan would flag it)
        for b in self.bytes.iter_mut() {
            *b = 0xdd;
        }
    }
}

/// A custom `CloneStableDeref` buffer type ("escape hatch" reader) that counts clones and
/// drops of handles.
#[derive(Debug)]
pub struct CountingBuf(Rc<CbInner>);

impl CountingBuf {
    pub fn new(bytes: &[u8]) -> CountingBuf {
        CB_LIVE.with(|c| c.set(c.get() + 1));
        CB_BUFFERS_LIVE.with(|c| c.set(c.get() + 1));
        CountingBuf(Rc::new(CbInner { bytes: bytes.to_vec().into_boxed_slice() }))
    }
}

impl Clone for CountingBuf {
    fn clone(&self) -> Self {
        CB_LIVE.with(|c| c.set(c.get() + 1));
        CB_CLONES.with(|c| c.set(c.get() + 1));
        CountingBuf(self.0.clone())
    }
}

impl Drop for CountingBuf {
    fn drop(&mut self) {
        CB_LIVE.with(|c| c.set(c.get() - 1));
        CB_DROPS.with(|c| c.set(c.get() + 1));
    }
}

impl Deref for CountingBuf {
    type Target = [u8];
    fn deref(&self) -> &[u8] {
        &self.0.bytes
    }
}

// Valid for any Rc: the heap allocation never moves and clones deref to the same bytes.
unsafe impl gimli::StableDeref for CountingBuf {}
unsafe impl gimli::CloneStableDeref for CountingBuf {}

/// The identity relocation.
#[derive(Debug, Clone, Copy)]
pub struct Identity;

impl Relocate<usize> for Identity {
    fn relocate_address(&self, _offset: usize, value: u64) -> Result<u64> {
        Ok(value)
    }
    fn relocate_offset(&self, _offset: usize, value: usize) -> Result<usize> {
        Ok(value)
    }
}

/// A relocation that fails at call k (C01: failing Relocate callbacks).
#[derive(Debug, Clone)]
pub struct FailingRelocate {
    pub fail_at: i64,
    pub calls: Rc<Cell<i64>>,
}

impl Relocate<usize> for FailingRelocate {
    fn relocate_address(&self, _offset: usize, value: u64) -> Result<u64> {
        let n = self.calls.get();
        self.calls.set(n + 1);
        if n == self.fail_at {
            Err(Error::Io)
        } else {
            Ok(value)
        }
    }
    fn relocate_offset(&self, _offset: usize, value: usize) -> Result<usize> {
        let n = self.calls.get();
        self.calls.set(n + 1);
        if n == self.fail_at {
            Err(Error::Io)
        } else {
            Ok(value)
        }
    }
}

/// The sequential cursor model: (start, len) into a shared Vec. Safe code only.
#[derive(Debug, Clone)]
pub struct ModelReader {
    pub buf: Rc<Vec<u8>>,
    pub start: usize,
    pub len: usize,
    pub endian: RunTimeEndian,
}

impl ModelReader {
    pub fn new(bytes: &[u8], endian: RunTimeEndian) -> ModelReader {
        ModelReader { buf: Rc::new(bytes.to_vec()), start: 0, len: bytes.len(), endian }
    }
    pub fn window(&self) -> &[u8] {
        &self.buf[self.start..self.start + self.len]
    }
    fn eof(&self) -> Error {
        Error::UnexpectedEof(self.offset_id())
    }
}

/// Model offset ids live in their own space: token + start.
pub const MODEL_ID_BASE: u64 = 0x4d4f_4445_4c00_0000;

impl Reader for ModelReader {
    type Endian = RunTimeEndian;
    type Offset = usize;

    fn endian(&self) -> RunTimeEndian {
        self.endian
    }
    fn len(&self) -> usize {
        self.len
    }
    fn empty(&mut self) {
        self.len = 0;
    }
    fn truncate(&mut self, len: usize) -> Result<()> {
        if len > self.len {
            return Err(self.eof());
        }
        self.len = len;
        Ok(())
    }
    fn offset_from(&self, base: &Self) -> usize {
        self.start - base.start
    }
    fn offset_id(&self) -> ReaderOffsetId {
        ReaderOffsetId(MODEL_ID_BASE + self.start as u64)
    }
    fn lookup_offset_id(&self, id: ReaderOffsetId) -> Option<usize> {
        let p = id.0.checked_sub(MODEL_ID_BASE)? as usize;
        if p >= self.start && p <= self.start + self.len {
            Some(p - self.start)
        } else {
            None
        }
    }
    fn find(&self, byte: u8) -> Result<usize> {
        self.window().iter().position(|b| *b == byte).ok_or_else(|| self.eof())
    }
    fn skip(&mut self, len: usize) -> Result<()> {
        if len > self.len {
            return Err(self.eof());
        }
        self.start += len;
        self.len -= len;
        Ok(())
    }
    fn split(&mut self, len: usize) -> Result<Self> {
        if len > self.len {
            return Err(self.eof());
        }
        let head = ModelReader { buf: self.buf.clone(), start: self.start, len, endian: self.endian };
        self.start += len;
        self.len -= len;
        Ok(head)
    }
    fn to_slice(&self) -> Result<Cow<'_, [u8]>> {
        Ok(Cow::Borrowed(self.window()))
    }
    fn to_string(&self) -> Result<Cow<'_, str>> {
        std::str::from_utf8(self.window()).map(Cow::Borrowed).map_err(|_| Error::BadUtf8)
    }
    fn to_string_lossy(&self) -> Result<Cow<'_, str>> {
        Ok(String::from_utf8_lossy(self.window()))
    }
    fn read_slice(&mut self, buf: &mut [u8]) -> Result<()> {
        if buf.len() > self.len {
            return Err(self.eof());
        }
        buf.copy_from_slice(&self.buf[self.start..self.start + buf.len()]);
        self.start += buf.len();
        self.len -= buf.len();
        Ok(())
    }
}

pub fn is_big(e: RunTimeEndian) -> bool {
    e.is_big_endian()
}
