//! Reader kinds used by the reader-equivalence engine (C10): the five real readers and
//! an independent, safe cursor model that implements `Reader` itself (so that all of the
//! trait's composite default methods run over the model's primitives).

use gimli::{Endianity, Error, Reader, ReaderOffsetId, Relocate, Result, RunTimeEndian};
use std::borrow::Cow;
use std::cell::Cell;
use std::ops::Deref;
use std::rc::Rc;

thread_local! {
    pub static CB_LIVE: Cell<i64> = const { Cell::new(0) };
    pub static CB_CLONES: Cell<u64> = const { Cell::new(0) };
    pub static CB_DROPS: Cell<u64> = const { Cell::new(0) };
    pub static CB_BUFFERS_LIVE: Cell<i64> = const { Cell::new(0) };
}

/// The underlying allocation of a CountingBuf; counts its own lifetime.
#[derive(Debug)]
pub struct CbInner {
    bytes: Box<[u8]>,
}

impl Drop for CbInner {
    fn drop(&mut self) {
        CB_BUFFERS_LIVE.with(|c| c.set(c.get() - 1));
        // poison: a use after this point would read 0xdd (and Miri/ASan would flag it)
        for b in self.bytes.iter_mut() {
            *b = 0xdd;
        }
    }
}

/// A custom `CloneStableDeref` buffer type ("escape hatch" reader) that counts clones and
/// drops of handles.
#[derive(Debug)]
pub struct CountingBuf(Rc<CbInner>);

impl CountingBuf {
    pub fn new(bytes: &[u8]) -> CountingBuf {
        CB_LIVE.with(|c| c.set(c.get() + 1));
        CB_BUFFERS_LIVE.with(|c| c.set(c.get() + 1));
        CountingBuf(Rc::new(CbInner { bytes: bytes.to_vec().into_boxed_slice() }))
    }
}

impl Clone for CountingBuf {
    fn clone(&self) -> Self {
        CB_LIVE.with(|c| c.set(c.get() + 1));
        CB_CLONES.with(|c| c.set(c.get() + 1));
        CountingBuf(self.0.clone())
    }
}

impl Drop for CountingBuf {
    fn drop(&mut self) {
        CB_LIVE.with(|c| c.set(c.get() - 1));
        CB_DROPS.with(|c| c.set(c.get() + 1));
    }
}

impl Deref for CountingBuf {
    type Target = [u8];
    fn deref(&self) -> &[u8] {
        &self.0.bytes
    }
}

// Valid for any Rc: the heap allocation never moves and clones deref to the same bytes.
unsafe impl gimli::StableDeref for CountingBuf {}
unsafe impl gimli::CloneStableDeref for CountingBuf {}

/// The identity relocation.
#[derive(Debug, Clone, Copy)]
pub struct Identity;

impl Relocate<usize> for Identity {
    fn relocate_address(&self, _offset: usize, value: u64) -> Result<u64> {
        Ok(value)
    }
    fn relocate_offset(&self, _offset: usize, value: usize) -> Result<usize> {
        Ok(value)
    }
}

/// A relocation that fails at call k (C01: failing Relocate callbacks).
#[derive(Debug, Clone)]
pub struct FailingRelocate {
    pub fail_at: i64,
    pub calls: Rc<Cell<i64>>,
}

impl Relocate<usize> for FailingRelocate {
    fn relocate_address(&self, _offset: usize, value: u64) -> Result<u64> {
        let n = self.calls.get();
        self.calls.set(n + 1);
        if n == self.fail_at {
            Err(Error::Io)
        } else {
            Ok(value)
        }
    }
    fn relocate_offset(&self, _offset: usize, value: usize) -> Result<usize> {
        let n = self.calls.get();
        self.calls.set(n + 1);
        if n == self.fail_at {
            Err(Error::Io)
        } else {
            Ok(value)
        }
    }
}

/// The sequential cursor model: (start, len) into a shared Vec. Safe code only.
#[derive(Debug, Clone)]
pub struct ModelReader {
    pub buf: Rc<Vec<u8>>,
    pub start: usize,
    pub len: usize,
    pub endian: RunTimeEndian,
}

impl ModelReader {
    pub fn new(bytes: &[u8], endian: RunTimeEndian) -> ModelReader {
        ModelReader { buf: Rc::new(bytes.to_vec()), start: 0, len: bytes.len(), endian }
    }
    pub fn window(&self) -> &[u8] {
        &self.buf[self.start..self.start + self.len]
    }
    fn eof(&self) -> Error {
        Error::UnexpectedEof(self.offset_id())
    }
}

/// Model offset ids live in their own space: token + start.
pub const MODEL_ID_BASE: u64 = 0x4d4f_4445_4c00_0000;

impl Reader for ModelReader {
    type Endian = RunTimeEndian;
    type Offset = usize;

    fn endian(&self) -> RunTimeEndian {
        self.endian
    }
    fn len(&self) -> usize {
        self.len
    }
    fn empty(&mut self) {
        self.len = 0;
    }
    fn truncate(&mut self, len: usize) -> Result<()> {
        if len > self.len {
            return Err(self.eof());
        }
        self.len = len;
        Ok(())
    }
    fn offset_from(&self, base: &Self) -> usize {
        self.start - base.start
    }
    fn offset_id(&self) -> ReaderOffsetId {
        ReaderOffsetId(MODEL_ID_BASE + self.start as u64)
    }
    fn lookup_offset_id(&self, id: ReaderOffsetId) -> Option<usize> {
        let p = id.0.checked_sub(MODEL_ID_BASE)? as usize;
        if p >= self.start && p <= self.start + self.len {
            Some(p - self.start)
        } else {
            None
        }
    }
    fn find(&self, byte: u8) -> Result<usize> {
        self.window().iter().position(|b| *b == byte).ok_or_else(|| self.eof())
    }
    fn skip(&mut self, len: usize) -> Result<()> {
        if len > self.len {
            return Err(self.eof());
        }
        self.start += len;
        self.len -= len;
        Ok(())
    }
    fn split(&mut self, len: usize) -> Result<Self> {
        if len > self.len {
            return Err(self.eof());
        }
        let head = ModelReader { buf: self.buf.clone(), start: self.start, len, endian: self.endian };
        self.start += len;
        self.len -= len;
        Ok(head)
    }
    fn to_slice(&self) -> Result<Cow<'_, [u8]>> {
        Ok(Cow::Borrowed(self.window()))
    }
    fn to_string(&self) -> Result<Cow<'_, str>> {
        std::str::from_utf8(self.window()).map(Cow::Borrowed).map_err(|_| Error::BadUtf8)
    }
    fn to_string_lossy(&self) -> Result<Cow<'_, str>> {
        Ok(String::from_utf8_lossy(self.window()))
    }
    fn read_slice(&mut self, buf: &mut [u8]) -> Result<()> {
        if buf.len() > self.len {
            return Err(self.eof());
        }
        buf.copy_from_slice(&self.buf[self.start..self.start + buf.len()]);
        self.start += buf.len();
        self.len -= buf.len();
        Ok(())
    }

    // ---- derived reads, written out from the DWARF encoding rules instead of inherited from
    // ---- gimli's default methods, so that the model is independent of the code it judges
    fn read_u8(&mut self) -> Result<u8> {
        self.take_uint(1).map(|v| v as u8)
    }
    fn read_i8(&mut self) -> Result<i8> {
        self.take_uint(1).map(|v| v as u8 as i8)
    }
    fn read_u16(&mut self) -> Result<u16> {
        self.take_uint(2).map(|v| v as u16)
    }
    fn read_i16(&mut self) -> Result<i16> {
        self.take_uint(2).map(|v| v as u16 as i16)
    }
    fn read_u32(&mut self) -> Result<u32> {
        self.take_uint(4).map(|v| v as u32)
    }
    fn read_i32(&mut self) -> Result<i32> {
        self.take_uint(4).map(|v| v as u32 as i32)
    }
    fn read_u64(&mut self) -> Result<u64> {
        self.take_uint(8)
    }
    fn read_i64(&mut self) -> Result<i64> {
        self.take_uint(8).map(|v| v as i64)
    }
    fn read_f32(&mut self) -> Result<f32> {
        self.take_uint(4).map(|v| f32::from_bits(v as u32))
    }
    fn read_f64(&mut self) -> Result<f64> {
        self.take_uint(8).map(f64::from_bits)
    }
    fn read_u128(&mut self) -> Result<u128> {
        if self.len < 16 {
            return Err(self.eof());
        }
        let w = self.window()[..16].to_vec();
        self.start += 16;
        self.len -= 16;
        let mut v = 0u128;
        for i in 0..16 {
            let b = if is_big(self.endian) { w[i] } else { w[15 - i] };
            v = (v << 8) | b as u128;
        }
        Ok(v)
    }
    fn read_uint(&mut self, n: usize) -> Result<u64> {
        assert!((1..=8).contains(&n));
        self.take_uint(n)
    }
    fn read_null_terminated_slice(&mut self) -> Result<Self> {
        let idx = match self.window().iter().position(|b| *b == 0) {
            Some(i) => i,
            None => return Err(self.eof()),
        };
        let head = ModelReader { buf: self.buf.clone(), start: self.start, len: idx, endian: self.endian };
        self.start += idx + 1;
        self.len -= idx + 1;
        Ok(head)
    }
    fn skip_leb128(&mut self) -> Result<()> {
        loop {
            let b = self.take_uint(1)? as u8;
            if b & 0x80 == 0 {
                return Ok(());
            }
        }
    }
    fn read_uleb128(&mut self) -> Result<u64> {
        // value = sum of (byte & 0x7f) << 7i; the tenth byte may only contribute bit 63
        let mut v = 0u64;
        for i in 0..10u32 {
            let b = self.take_uint(1)? as u8;
            if i == 9 && b > 1 {
                return Err(Error::BadUnsignedLeb128);
            }
            v |= ((b & 0x7f) as u64) << (7 * i);
            if b & 0x80 == 0 {
                return Ok(v);
            }
        }
        unreachable!("a tenth byte with a continuation bit is > 1")
    }
    fn read_uleb128_u32(&mut self) -> Result<u32> {
        let v = ModelReader::read_uleb128(self)?;
        u32::try_from(v).map_err(|_| Error::BadUnsignedLeb128)
    }
    fn read_uleb128_u16(&mut self) -> Result<u16> {
        // at most three bytes; the third may only contribute bits 14 and 15
        let mut v = 0u32;
        for i in 0..3u32 {
            let b = self.take_uint(1)? as u8;
            if i == 2 {
                if b > 3 {
                    return Err(Error::BadUnsignedLeb128);
                }
                v |= (b as u32) << 14;
                return Ok(v as u16);
            }
            v |= ((b & 0x7f) as u32) << (7 * i);
            if b & 0x80 == 0 {
                return Ok(v as u16);
            }
        }
        unreachable!()
    }
    fn read_sleb128(&mut self) -> Result<i64> {
        let mut v = 0i64;
        let mut shift = 0u32;
        loop {
            let b = self.take_uint(1)? as u8;
            if shift == 63 && b != 0 && b != 0x7f {
                return Err(Error::BadSignedLeb128);
            }
            v |= ((b & 0x7f) as i64) << shift;
            shift += 7;
            if b & 0x80 == 0 {
                if shift < 64 && b & 0x40 != 0 {
                    v |= -1i64 << shift;
                }
                return Ok(v);
            }
        }
    }
    fn read_initial_length(&mut self) -> Result<(usize, gimli::Format)> {
        let v = self.take_uint(4)? as u32;
        if v < 0xffff_fff0 {
            Ok((v as usize, gimli::Format::Dwarf32))
        } else if v == 0xffff_ffff {
            Ok((self.take_uint(8)? as usize, gimli::Format::Dwarf64))
        } else {
            Err(Error::UnknownReservedLength(v))
        }
    }
    fn read_address_size(&mut self) -> Result<u8> {
        let v = self.take_uint(1)? as u8;
        if matches!(v, 1 | 2 | 4 | 8) {
            Ok(v)
        } else {
            Err(Error::UnsupportedAddressSize(v))
        }
    }
    fn read_address(&mut self, address_size: u8) -> Result<u64> {
        if !matches!(address_size, 1 | 2 | 4 | 8) {
            return Err(Error::UnsupportedAddressSize(address_size));
        }
        self.take_uint(address_size as usize)
    }
    fn read_word(&mut self, format: gimli::Format) -> Result<usize> {
        self.take_uint(if format == gimli::Format::Dwarf64 { 8 } else { 4 }).map(|v| v as usize)
    }
    fn read_length(&mut self, format: gimli::Format) -> Result<usize> {
        ModelReader::read_word(self, format)
    }
    fn read_offset(&mut self, format: gimli::Format) -> Result<usize> {
        ModelReader::read_word(self, format)
    }
    fn read_sized_offset(&mut self, size: u8) -> Result<usize> {
        if !matches!(size, 1 | 2 | 4 | 8) {
            return Err(Error::UnsupportedOffsetSize(size));
        }
        self.take_uint(size as usize).map(|v| v as usize)
    }
}

impl ModelReader {
    /// The next `n` (1..=8) bytes as an unsigned integer in the reader's byte order; nothing
    /// is consumed when fewer than `n` bytes remain.
    fn take_uint(&mut self, n: usize) -> Result<u64> {
        if n > self.len {
            return Err(self.eof());
        }
        let w = &self.buf[self.start..self.start + n];
        let mut v = 0u64;
        for i in 0..n {
            let b = if is_big(self.endian) { w[i] } else { w[n - 1 - i] };
            v = (v << 8) | b as u64;
        }
        self.start += n;
        self.len -= n;
        Ok(v)
    }
}

pub fn is_big(e: RunTimeEndian) -> bool {
    e.is_big_endian()
}
