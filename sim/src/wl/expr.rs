//! DWARF expression programs as a small AST with the harness's own encoder, so that
//! decoding is checked against the generator and not against gimli's writer.

use super::asm::Asm;
use crate::rng::Rng;

/// One operation: opcode + generic operand slots (meaning depends on the layout).
#[derive(Clone, Debug, PartialEq)]
pub struct Ins {
    pub opc: u8,
    pub u: u64,
    pub s: i64,
    pub bytes: Vec<u8>,
}

impl Ins {
    pub fn op(opc: u8) -> Ins {
        Ins { opc, u: 0, s: 0, bytes: Vec::new() }
    }
    pub fn u(opc: u8, u: u64) -> Ins {
        Ins { opc, u, s: 0, bytes: Vec::new() }
    }
    pub fn s(opc: u8, s: i64) -> Ins {
        Ins { opc, u: 0, s, bytes: Vec::new() }
    }
}

#[derive(Clone, Copy, Debug, PartialEq, Eq)]
pub enum Layout {
    None,
    U8,
    I8,
    U16,
    I16,
    U32,
    I32,
    U64,
    I64,
    Uleb,
    Sleb,
    UlebSleb,
    UlebUleb,
    Addr,
    /// i16 relative branch displacement in `s`
    Branch,
    /// uleb length + bytes
    Block,
    /// u8 + uleb (deref_type: size, base type)
    U8Uleb,
    /// uleb base type + u8 length + bytes (const_type)
    TypedConst,
    /// offset (format-sized; address-sized in v2) + sleb (implicit_pointer)
    OffsetSleb,
    /// offset (format-sized; address-sized in v2) (call_ref, GNU_variable_value)
    Offset,
    /// u8 kind then uleb or u32 index
    Wasm,
    Unknown,
}

pub fn layout(opc: u8) -> Layout {
    use Layout::*;
    match opc {
        0x03 => Addr,
        0x06 | 0x12..=0x14 | 0x16..=0x22 | 0x24..=0x27 | 0x29..=0x2e => None,
        0x08 | 0x15 | 0x94 | 0x95 => U8,
        0x09 => I8,
        0x0a | 0x98 => U16,
        0x0b => I16,
        0x0c | 0x99 | 0xfa => U32,
        0x0d => I32,
        0x0e => U64,
        0x0f => I64,
        0x10 | 0x23 | 0x90 | 0x93 | 0xa1 | 0xa2 | 0xa8 | 0xa9 | 0xf7 | 0xf9 | 0xfb | 0xfc => Uleb,
        0x11 | 0x70..=0x8f | 0x91 => Sleb,
        0x28 | 0x2f => Branch,
        0x30..=0x6f => None,
        0x92 => UlebSleb,
        0x96 | 0x97 | 0x9b | 0x9c | 0x9f | 0xe0 | 0xf0 => None,
        0x9a | 0xfd => Offset,
        0x9d | 0xa5 | 0xf5 => UlebUleb,
        0x9e | 0xa3 | 0xf3 => Block,
        0xa0 | 0xf2 => OffsetSleb,
        0xa4 | 0xf4 => TypedConst,
        0xa6 | 0xa7 | 0xf6 => U8Uleb,
        0xed => Wasm,
        _ => Unknown,
    }
}

#[derive(Clone, Copy, Debug)]
pub struct EncParams {
    pub be: bool,
    pub addr_size: u8,
    pub d64: bool,
    pub version: u16,
}

impl EncParams {
    pub fn offset_size(&self) -> usize {
        if self.version == 2 {
            self.addr_size as usize
        } else if self.d64 {
            8
        } else {
            4
        }
    }
}

pub fn encode_ins(a: &mut Asm, i: &Ins, p: &EncParams) {
    a.u8(i.opc);
    match layout(i.opc) {
        Layout::None | Layout::Unknown => {}
        Layout::U8 => {
            a.u8(i.u as u8);
        }
        Layout::I8 => {
            a.u8(i.s as u8);
        }
        Layout::U16 => {
            a.u16(i.u as u16);
        }
        Layout::I16 | Layout::Branch => {
            a.u16(i.s as u16);
        }
        Layout::U32 => {
            a.u32(i.u as u32);
        }
        Layout::I32 => {
            a.u32(i.s as u32);
        }
        Layout::U64 => {
            a.u64(i.u);
        }
        Layout::I64 => {
            a.u64(i.s as u64);
        }
        Layout::Uleb => {
            a.uleb(i.u);
        }
        Layout::Sleb => {
            a.sleb(i.s);
        }
        Layout::UlebSleb => {
            a.uleb(i.u).sleb(i.s);
        }
        Layout::UlebUleb => {
            a.uleb(i.u).uleb(i.s as u64);
        }
        Layout::Addr => {
            a.uint(i.u, p.addr_size as usize);
        }
        Layout::Block => {
            a.uleb(i.bytes.len() as u64).bytes(&i.bytes);
        }
        Layout::U8Uleb => {
            a.u8(i.s as u8).uleb(i.u);
        }
        Layout::TypedConst => {
            a.uleb(i.u).u8(i.bytes.len() as u8).bytes(&i.bytes);
        }
        Layout::OffsetSleb => {
            a.uint(i.u, p.offset_size()).sleb(i.s);
        }
        Layout::Offset => {
            // DW_OP_call_ref / DW_OP_GNU_variable_value: always format-sized
            a.uint(i.u, if p.d64 { 8 } else { 4 });
        }
        Layout::Wasm => {
            let kind = i.s as u8;
            a.u8(kind);
            if kind == 3 {
                a.u32(i.u as u32);
            } else {
                a.uleb(i.u);
            }
        }
    }
}

/// Encode a program. Branch displacements in `s` are *instruction-relative* when
/// `targets` is given (index of the target instruction, may equal len = end), and are
/// resolved to byte displacements here.
pub fn encode(prog: &[Ins], p: &EncParams) -> Vec<u8> {
    let mut a = Asm::new(p.be);
    for i in prog {
        encode_ins(&mut a, i, p);
    }
    a.v
}

/// Byte offset of each instruction (plus the end offset).
pub fn offsets(prog: &[Ins], p: &EncParams) -> Vec<usize> {
    let mut a = Asm::new(p.be);
    let mut v = Vec::with_capacity(prog.len() + 1);
    for i in prog {
        v.push(a.len());
        encode_ins(&mut a, i, p);
    }
    v.push(a.len());
    v
}

/// Resolve instruction-index branch targets (stored in `u`) into byte displacements
/// (stored in `s`). Targets that do not fit i16 are left as they are.
pub fn resolve_branches(prog: &mut [Ins], p: &EncParams) {
    let offs = offsets(prog, p);
    for (k, ins) in prog.iter_mut().enumerate() {
        if layout(ins.opc) == Layout::Branch && ins.bytes.first() == Some(&1) {
            let t = (ins.u as usize).min(offs.len() - 1);
            let from = offs[k + 1] as i64;
            ins.s = offs[t] as i64 - from;
        }
    }
}

const NO_OPERAND_ARITH: &[u8] = &[
    0x06, 0x12, 0x13, 0x14, 0x16, 0x17, 0x19, 0x1a, 0x1b, 0x1c, 0x1d, 0x1e, 0x1f, 0x20, 0x21, 0x22,
    0x24, 0x25, 0x26, 0x27, 0x29, 0x2a, 0x2b, 0x2c, 0x2d, 0x2e,
];

/// A random instruction over the full opcode set with boundary operands.
pub fn random_ins(rng: &mut Rng, nprog: usize) -> Ins {
    let opc = match rng.below(16) {
        0..=3 => *rng.pick(NO_OPERAND_ARITH),
        4..=5 => 0x30 + rng.below(32) as u8,
        6 => *rng.pick(&[0x08u8, 0x09, 0x0a, 0x0b, 0x0c, 0x0d, 0x0e, 0x0f, 0x10, 0x11]),
        7 => *rng.pick(&[0x50u8, 0x51, 0x6f, 0x70, 0x77, 0x8f, 0x90, 0x91, 0x92]),
        8 => *rng.pick(&[0x93u8, 0x9d, 0x9e, 0x9f, 0xa0, 0xf2, 0x93]),
        9 => *rng.pick(&[0x28u8, 0x2f]),
        10 => *rng.pick(&[0x98u8, 0x99, 0x9a, 0xa3, 0xf3, 0xfa, 0xfd]),
        11 => *rng.pick(&[0xa4u8, 0xa5, 0xa6, 0xa7, 0xa8, 0xa9, 0xf4, 0xf5, 0xf6, 0xf7, 0xf9]),
        12 => *rng.pick(&[0x03u8, 0xa1, 0xa2, 0xfb, 0xfc, 0x9b, 0xe0, 0x9c, 0x97, 0x96, 0xf0, 0xed]),
        13 => *rng.pick(&[0x15u8, 0x23, 0x94, 0x95, 0x18]),
        14 => rng.next() as u8,
        _ => *rng.pick(NO_OPERAND_ARITH),
    };
    let mut i = Ins::op(opc);
    let val = |rng: &mut Rng| if rng.chance(1, 3) { rng.interesting() } else { rng.below(40) };
    match layout(opc) {
        Layout::Branch => {
            if rng.chance(1, 6) {
                i.s = *rng.pick(&[0i64, -1, -3, 1, 0x7fff, -0x8000, 3]);
            } else {
                i.u = rng.below(nprog as u64 + 1);
                i.bytes = vec![1];
            }
        }
        Layout::Block => {
            i.bytes = match rng.below(4) {
                0 => vec![],
                1 => vec![0x50 + rng.below(32) as u8],
                2 => vec![0x30, 0x9f],
                _ => {
                    let n = rng.usize(9);
                    rng.bytes(n)
                }
            };
        }
        Layout::TypedConst => {
            i.u = if rng.chance(1, 6) { 0 } else { 1 + rng.below(20) };
            let n = *rng.pick(&[1usize, 2, 4, 8, 8, 4, 0, 3, 16]);
            i.bytes = rng.bytes(n);
        }
        Layout::U8Uleb => {
            i.s = *rng.pick(&[1i64, 2, 4, 8, 0, 9, 255]);
            i.u = rng.below(21);
        }
        Layout::UlebUleb => {
            i.u = val(rng);
            i.s = rng.below(21) as i64;
            if opc == 0x9d {
                i.s = val(rng) as i64;
            }
        }
        Layout::Wasm => {
            i.s = *rng.pick(&[0i64, 1, 2, 3, 4, 255]);
            i.u = val(rng);
        }
        Layout::U8 => {
            i.u = if opc == 0x15 { rng.below(5) } else { *rng.pick(&[1u64, 2, 4, 8, 0, 9, 255]) };
            if opc == 0x08 {
                i.u = rng.next() & 0xff;
            }
        }
        _ => {
            i.u = val(rng);
            i.s = val(rng) as i64;
            if matches!(opc, 0xa8 | 0xa9 | 0xf7 | 0xf9) {
                i.u = rng.below(21);
            }
        }
    }
    i
}

pub fn random_program(rng: &mut Rng, max_len: usize, p: &EncParams) -> Vec<Ins> {
    let n = rng.usize(max_len + 1);
    let mut prog: Vec<Ins> = (0..n).map(|_| random_ins(rng, n)).collect();
    resolve_branches(&mut prog, p);
    prog
}

/// A program generated with stack-depth bookkeeping so that most of it executes:
/// operands are pushed before they are consumed; typed operations get typed operands.
pub fn valid_program(rng: &mut Rng, max_len: usize, p: &EncParams, allow_loops: bool) -> Vec<Ins> {
    let n = 1 + rng.usize(max_len.max(1));
    let mut prog: Vec<Ins> = Vec::new();
    let mut depth: i32 = 0;
    let val = |rng: &mut Rng| if rng.chance(1, 3) { rng.interesting() } else { rng.below(40) };
    while prog.len() < n {
        let need_push = depth == 0 || (depth == 1 && rng.chance(1, 3));
        let choice = if need_push { 0 } else { rng.below(20) };
        match choice {
            0..=4 => {
                // push something
                let i = match rng.below(14) {
                    0..=3 => Ins::op(0x30 + rng.below(32) as u8),
                    4 => Ins::u(0x10, val(rng)),
                    5 => Ins::s(0x11, val(rng) as i64),
                    6 => Ins::u(*rng.pick(&[0x08u8, 0x0a, 0x0c, 0x0e]), val(rng)),
                    7 => Ins::s(*rng.pick(&[0x09u8, 0x0b, 0x0d, 0x0f]), val(rng) as i64),
                    8 => Ins::s(0x70 + rng.below(32) as u8, rng.below(64) as i64 - 32),
                    9 => Ins::s(0x91, rng.below(64) as i64 - 32),
                    10 => Ins::op(*rng.pick(&[0x9cu8, 0x9c, 0x97])),
                    11 => Ins::u(*rng.pick(&[0x03u8, 0xa1, 0xa2]), rng.below(0x1000)),
                    12 => {
                        let mut i = Ins::u(0xa5, rng.below(32));
                        i.s = rng.below(21) as i64;
                        i
                    }
                    _ => {
                        let ty = 1 + rng.below(20);
                        let mut i = Ins::u(0xa4, ty);
                        let sz = [1usize, 1, 2, 2, 4, 4, 8, 8, 4, 8][(ty % 10) as usize];
                        // world.base_type(ty) = VALUE_TYPES[1 + ty % 10]: I8,U8,I16,U16,I32,U32,I64,U64,F32,F64
                        let _ = sz;
                        let szs = [1usize, 1, 2, 2, 4, 4, 8, 8, 4, 8];
                        i.bytes = rng.bytes(szs[(ty % 10) as usize]);
                        i
                    }
                };
                prog.push(i);
                depth += 1;
            }
            5..=9 if depth >= 2 => {
                prog.push(Ins::op(*rng.pick(&[
                    0x1au8, 0x1b, 0x1c, 0x1d, 0x1e, 0x21, 0x22, 0x24, 0x25, 0x26, 0x27, 0x29, 0x2a, 0x2b, 0x2c, 0x2d, 0x2e,
                ])));
                depth -= 1;
            }
            10..=11 => {
                prog.push(match rng.below(6) {
                    0 => Ins::op(0x19),
                    1 => Ins::op(0x1f),
                    2 => Ins::op(0x20),
                    3 => Ins::u(0x23, val(rng)),
                    4 => Ins::op(0x06),
                    _ => Ins::u(0x94, *rng.pick(&[1u64, 2, 4, 8])),
                });
            }
            12 => {
                match rng.below(5) {
                    0 => {
                        prog.push(Ins::op(0x12));
                        depth += 1;
                    }
                    1 if depth >= 2 => {
                        prog.push(Ins::op(0x14));
                        depth += 1;
                    }
                    2 if depth >= 2 => prog.push(Ins::op(0x16)),
                    3 if depth >= 3 => prog.push(Ins::op(0x17)),
                    4 => {
                        prog.push(Ins::u(0x15, rng.below(depth as u64)));
                        depth += 1;
                    }
                    _ => {
                        prog.push(Ins::op(0x13));
                        depth -= 1;
                    }
                }
            }
            13 => {
                // control flow
                let mut i = Ins::op(if rng.bool() { 0x28 } else { 0x2f });
                let here = prog.len();
                let target = if allow_loops && rng.chance(1, 3) { rng.usize(here + 1) } else { here + 1 + rng.usize(3) };
                i.u = target.min(n) as u64;
                i.bytes = vec![1];
                if i.opc == 0x28 {
                    depth -= 1;
                }
                prog.push(i);
            }
            14 => {
                // convert / reinterpret to a random base type
                prog.push(Ins::u(*rng.pick(&[0xa8u8, 0xa9]), rng.below(21)));
            }
            15 => {
                prog.push(Ins::u(*rng.pick(&[0x98u8, 0x99]), rng.below(8)));
            }
            16 => {
                let mut i = Ins::op(0xa3);
                i.bytes = vec![0x50 + rng.below(32) as u8];
                prog.push(i);
                depth += 1;
            }
            17 if depth >= 1 => {
                // composite location piece
                match rng.below(4) {
                    0 => {
                        prog.push(Ins::op(0x9f));
                        prog.push(Ins::u(0x93, rng.below(16)));
                        depth -= 1;
                    }
                    1 => {
                        prog.push(Ins::op(0x50 + rng.below(32) as u8));
                        prog.push(Ins::u(0x93, rng.below(16)));
                    }
                    2 => {
                        prog.push(Ins::u(0x93, rng.below(16)));
                        depth -= 1;
                    }
                    _ => {
                        let mut i = Ins::u(0x9d, rng.below(64));
                        i.s = rng.below(8) as i64;
                        prog.push(Ins::op(0x9f));
                        prog.push(i);
                        depth -= 1;
                    }
                }
            }
            18 if depth >= 1 => {
                prog.push(Ins::op(0x9b));
            }
            _ => {
                prog.push(Ins::op(0x96));
            }
        }
        if depth < 0 {
            depth = 0;
        }
    }
    // terminal forms
    match rng.below(8) {
        0 => prog.push(Ins::op(0x9f)),
        1 => {
            let mut i = Ins::op(0x9e);
            i.bytes = rng.bytes(4);
            prog.push(i);
        }
        2 => prog.push(Ins::op(0x50 + rng.below(32) as u8)),
        _ => {}
    }
    resolve_branches(&mut prog, p);
    prog
}
