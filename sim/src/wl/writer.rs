//! W-writer: well-formed traffic produced by gimli's own writer from seeded models.
//! The writer is only a convenient source of well-formed sections; no write-side
//! property is claimed. A writer error or panic simply yields no traffic (fallback).

use crate::rng::Rng;
use gimli::write::{
    Address, AttributeValue, CallFrameInstruction, CommonInformationEntry, Dwarf, EndianVec,
    Expression, FrameDescriptionEntry, FrameTable, LineProgram, LineString, Location,
    LocationList, Range, RangeList, Sections, Unit, UnitEntryId,
};
use gimli::{constants as c, Encoding, Format, LineEncoding, Register, RunTimeEndian};
use std::collections::BTreeMap;

pub fn endian(be: bool) -> RunTimeEndian {
    if be {
        RunTimeEndian::Big
    } else {
        RunTimeEndian::Little
    }
}

fn small_expr(rng: &mut Rng, base: Option<UnitEntryId>) -> Expression {
    let mut e = Expression::new();
    for _ in 0..rng.usize(5) {
        match rng.below(14) {
            0 => e.op_constu(rng.interesting()),
            1 => e.op_consts(rng.interesting() as i64),
            2 => e.op_fbreg(rng.below(64) as i64 - 32),
            3 => e.op_breg(Register(rng.below(40) as u16), rng.below(64) as i64 - 32),
            4 => e.op(*rng.pick(&[c::DW_OP_plus, c::DW_OP_minus, c::DW_OP_dup, c::DW_OP_drop, c::DW_OP_and, c::DW_OP_swap])),
            5 => e.op_deref(),
            6 => e.op_plus_uconst(rng.below(1000)),
            7 => e.op_reg(Register(rng.below(40) as u16)),
            8 => e.op_piece(rng.below(16)),
            9 => e.op_addr(Address::Constant(rng.below(0x10000))),
            10 => e.op(c::DW_OP_stack_value),
            11 => {
                if let Some(b) = base {
                    e.op_regval_type(Register(rng.below(32) as u16), b);
                }
            }
            12 => e.op_pick(rng.below(3) as u8),
            _ => e.op(c::DW_OP_call_frame_cfa),
        }
    }
    e
}

fn line_program(rng: &mut Rng, enc: Encoding, dwarf: &mut Dwarf) -> LineProgram {
    if rng.chance(1, 5) {
        return LineProgram::none();
    }
    let le = LineEncoding {
        minimum_instruction_length: *rng.pick(&[1u8, 1, 2, 4]),
        maximum_operations_per_instruction: if enc.version >= 4 { *rng.pick(&[1u8, 1, 1, 4]) } else { 1 },
        default_is_stmt: rng.bool(),
        line_base: *rng.pick(&[-5i8, -3, -1, 0]),
        line_range: *rng.pick(&[14u8, 12, 6, 10]),
    };
    let dir = LineString::new(&b"/work"[..], enc, &mut dwarf.line_strings);
    let file = LineString::new(&b"main.c"[..], enc, &mut dwarf.line_strings);
    let mut p = LineProgram::new(enc, le, dir, None, file, None);
    let d2 = LineString::new(&b"inc"[..], enc, &mut dwarf.line_strings);
    let d2 = p.add_directory(d2);
    let f2 = LineString::new(&b"a.h"[..], enc, &mut dwarf.line_strings);
    let f2 = p.add_file(f2, d2, None);
    for _ in 0..rng.usize(3) {
        p.begin_sequence(Some(Address::Constant(rng.below(0x10000))));
        for _ in 0..rng.usize(8) {
            let row = p.row();
            row.address_offset += rng.below(40) * le.minimum_instruction_length as u64;
            row.line = (row.line as i64 + rng.below(20) as i64 - 5).max(0) as u64;
            row.column = rng.below(80);
            if rng.chance(1, 4) {
                row.file = f2;
            }
            row.is_statement = rng.bool();
            row.basic_block = rng.chance(1, 8);
            row.prologue_end = rng.chance(1, 8);
            row.discriminator = if rng.chance(1, 8) { rng.below(5) } else { 0 };
            p.generate_row();
        }
        let off = p.row().address_offset + rng.below(16) * le.minimum_instruction_length as u64;
        p.end_sequence(off);
    }
    p
}

fn build_unit(rng: &mut Rng, enc: Encoding, dwarf: &mut Dwarf, earlier: &mut Vec<(gimli::write::UnitId, Vec<gimli::write::UnitEntryId>)>) {
    let lp = line_program(rng, enc, dwarf);
    let has_lp = !lp.is_none();
    let mut unit = Unit::new(enc, lp);
    let root = unit.root();
    let name = dwarf.strings.add(&b"unit.c"[..]);
    unit.get_mut(root).set(c::DW_AT_name, AttributeValue::StringRef(name));
    unit.get_mut(root).set(c::DW_AT_comp_dir, AttributeValue::String(b"/work".to_vec()));
    unit.get_mut(root).set(c::DW_AT_language, AttributeValue::Language(c::DW_LANG_C11));
    if has_lp {
        unit.get_mut(root).set(c::DW_AT_stmt_list, AttributeValue::LineProgramRef);
    }
    let low = rng.below(0x1000);
    if rng.bool() {
        unit.get_mut(root).set(c::DW_AT_low_pc, AttributeValue::Address(Address::Constant(low)));
    }
    // a base type first so typed ops can refer to it
    let base = unit.add(root, c::DW_TAG_base_type);
    unit.get_mut(base).set(c::DW_AT_byte_size, AttributeValue::Data1(*rng.pick(&[1, 2, 4, 8])));
    unit.get_mut(base).set(c::DW_AT_encoding, AttributeValue::Encoding(c::DW_ATE_signed));
    let mut ids = vec![root, base];
    let bushy = BUSHY.with(|b| b.get());
    let n = if bushy { 6 + rng.usize(30) } else { rng.usize(10) };
    for _ in 0..n {
        let parent = *rng.pick(&ids);
        let parent = if parent == base { root } else { parent };
        let tag = *rng.pick(&[
            c::DW_TAG_subprogram,
            c::DW_TAG_variable,
            c::DW_TAG_formal_parameter,
            c::DW_TAG_lexical_block,
            c::DW_TAG_structure_type,
            c::DW_TAG_member,
            c::DW_TAG_inlined_subroutine,
            c::DW_TAG_namespace,
        ]);
        let id = unit.add(parent, tag);
        ids.push(id);
        if rng.chance(1, if bushy { 2 } else { 3 }) {
            unit.get_mut(id).set_sibling(true);
        }
        for _ in 0..rng.usize(5) {
            let (at, val) = match rng.below(32) {
                0 => (c::DW_AT_name, AttributeValue::String(b"n".to_vec())),
                1 => (c::DW_AT_name, AttributeValue::StringRef(dwarf.strings.add(&b"shared_name"[..]))),
                2 => (c::DW_AT_low_pc, AttributeValue::Address(Address::Constant(rng.below(0x10000)))),
                3 => (c::DW_AT_high_pc, AttributeValue::Udata(rng.below(0x100))),
                4 => (c::DW_AT_high_pc, AttributeValue::Address(Address::Constant(rng.below(0x20000)))),
                5 => (c::DW_AT_type, AttributeValue::UnitRef(*rng.pick(&ids))),
                6 => (c::DW_AT_location, AttributeValue::Exprloc(small_expr(rng, Some(base)))),
                7 => (c::DW_AT_frame_base, AttributeValue::Exprloc(small_expr(rng, None))),
                8 => (c::DW_AT_decl_line, AttributeValue::Udata(rng.interesting())),
                9 => (c::DW_AT_const_value, AttributeValue::Sdata(rng.interesting() as i64)),
                10 => (c::DW_AT_external, AttributeValue::Flag(rng.bool())),
                11 => (c::DW_AT_declaration, AttributeValue::FlagPresent),
                12 => (c::DW_AT_byte_size, AttributeValue::Data2(rng.next() as u16)),
                13 => (c::DW_AT_const_value, AttributeValue::Block(rng.bytes(5))),
                14 => (c::DW_AT_data_member_location, AttributeValue::Data4(rng.next() as u32)),
                15 => (c::DW_AT_const_value, AttributeValue::Data8(rng.interesting())),
                16 => {
                    let mut v = Vec::new();
                    for _ in 0..1 + rng.usize(3) {
                        let b = rng.below(0x1000);
                        v.push(match rng.below(4) {
                            0 => Range::BaseAddress { address: Address::Constant(rng.below(0x10000)) },
                            1 => Range::StartEnd { begin: Address::Constant(b), end: Address::Constant(b + 1 + rng.below(64)) },
                            2 => Range::StartLength { begin: Address::Constant(b), length: 1 + rng.below(64) },
                            _ => Range::OffsetPair { begin: b, end: b + 1 + rng.below(64) },
                        });
                    }
                    (c::DW_AT_ranges, AttributeValue::RangeListRef(unit.ranges.add(RangeList(v))))
                }
                17 => {
                    let mut v = Vec::new();
                    for _ in 0..1 + rng.usize(3) {
                        let b = rng.below(0x1000);
                        let data = small_expr(rng, Some(base));
                        v.push(match rng.below(4) {
                            0 => Location::BaseAddress { address: Address::Constant(rng.below(0x10000)) },
                            1 => Location::StartEnd { begin: Address::Constant(b), end: Address::Constant(b + 1 + rng.below(64)), data },
                            2 => Location::StartLength { begin: Address::Constant(b), length: 1 + rng.below(64), data },
                            _ => Location::OffsetPair { begin: b, end: b + 1 + rng.below(64), data },
                        });
                    }
                    (c::DW_AT_location, AttributeValue::LocationListRef(unit.locations.add(LocationList(v))))
                }
                18 => (c::DW_AT_decl_file, AttributeValue::FileIndex(None)),
                19 => (c::DW_AT_accessibility, AttributeValue::Accessibility(c::DW_ACCESS_public)),
                20 => (c::DW_AT_signature, AttributeValue::DebugTypesRef(gimli::DebugTypeSignature(rng.next()))),
                22 | 23 if !earlier.is_empty() => {
                    // a reference into an earlier unit (DW_FORM_ref_addr)
                    let (u, es) = rng.pick(earlier).clone();
                    (c::DW_AT_type, AttributeValue::DebugInfoRef(gimli::write::DebugInfoRef::Entry(u, *rng.pick(&es))))
                }
                24 => (c::DW_AT_inline, AttributeValue::Inline(c::DW_INL_inlined)),
                25 => (c::DW_AT_calling_convention, AttributeValue::CallingConvention(c::DW_CC_normal)),
                26 => (c::DW_AT_visibility, AttributeValue::Visibility(c::DW_VIS_exported)),
                27 => (c::DW_AT_virtuality, AttributeValue::Virtuality(c::DW_VIRTUALITY_virtual)),
                28 => (c::DW_AT_identifier_case, AttributeValue::IdentifierCase(c::DW_ID_down_case)),
                29 => (c::DW_AT_ordering, AttributeValue::Ordering(c::DW_ORD_col_major)),
                30 => (c::DW_AT_decimal_sign, AttributeValue::DecimalSign(c::DW_DS_trailing_overpunch)),
                31 => (c::DW_AT_endianity, AttributeValue::Endianity(c::DW_END_big)),
                _ => (c::DW_AT_const_value, AttributeValue::Data16(rng.next() as u128 * 0x1_0000_0001)),
            };
            unit.get_mut(id).set(at, val);
        }
    }
    let uid = dwarf.units.add(unit);
    earlier.push((uid, ids));
}

thread_local! {
    /// Larger, deeper trees with more DW_AT_sibling attributes (tree-walking workloads).
    pub static BUSHY: std::cell::Cell<bool> = std::cell::Cell::new(false);
}

/// `dwarf_sections` with bushier trees.
pub fn dwarf_sections_bushy(rng: &mut Rng, be: bool, addr_size: u8) -> Option<BTreeMap<String, Vec<u8>>> {
    BUSHY.with(|b| b.set(true));
    let r = dwarf_sections(rng, be, addr_size);
    BUSHY.with(|b| b.set(false));
    r
}

/// Build a small multi-unit DWARF and serialise it. Returns section name -> bytes
/// (read-side names), or None when the writer refused the model.
pub fn dwarf_sections(rng: &mut Rng, be: bool, addr_size: u8) -> Option<BTreeMap<String, Vec<u8>>> {
    let asz = if addr_size == 4 || addr_size == 8 { addr_size } else { 8 };
    let mut rng2 = rng.fork();
    let res = std::panic::catch_unwind(move || {
        let rng = &mut rng2;
        let mut dwarf = Dwarf::new();
        let mut earlier = Vec::new();
        for _ in 0..1 + rng.usize(3) {
            let enc = Encoding {
                address_size: asz,
                format: if rng.chance(1, 4) { Format::Dwarf64 } else { Format::Dwarf32 },
                version: *rng.pick(&[2u16, 3, 4, 4, 5, 5]),
            };
            build_unit(rng, enc, &mut dwarf, &mut earlier);
        }
        let mut sections = Sections::new(EndianVec::new(endian(be)));
        if dwarf.write(&mut sections).is_err() {
            return None;
        }
        let mut m = BTreeMap::new();
        let _ = sections.for_each(|id, w| -> Result<(), ()> {
            m.insert(id.name().trim_start_matches('.').to_string(), w.slice().to_vec());
            Ok(())
        });
        Some(m)
    });
    res.unwrap_or(None)
}

/// A frame table serialised as .debug_frame and .eh_frame.
pub fn frame_sections(rng: &mut Rng, be: bool, addr_size: u8) -> Option<(Vec<u8>, Vec<u8>)> {
    let asz = if addr_size == 4 || addr_size == 8 { addr_size } else { 8 };
    let mut rng2 = rng.fork();
    let res = std::panic::catch_unwind(move || {
        let rng = &mut rng2;
        let mut table = FrameTable::default();
        for _ in 0..1 + rng.usize(2) {
            let enc = Encoding {
                address_size: asz,
                format: if rng.chance(1, 5) { Format::Dwarf64 } else { Format::Dwarf32 },
                version: *rng.pick(&[1u16, 3, 4]),
            };
            let caf = *rng.pick(&[1u8, 1, 2, 4]);
            let daf = *rng.pick(&[-8i8, -4, -1, 1, 4]);
            let mut cie = CommonInformationEntry::new(enc, caf, daf, Register(rng.below(32) as u16));
            cie.fde_address_encoding = *rng.pick(&[c::DW_EH_PE_absptr, c::DW_EH_PE_udata4, c::DW_EH_PE_pcrel.0.into_pe() ]);
            for _ in 0..rng.usize(3) {
                cie.add_instruction(instr(rng, daf));
            }
            let cie_id = table.add_cie(cie);
            for _ in 0..1 + rng.usize(3) {
                let len = 0x10 + rng.below(0x100) as u32;
                let mut fde = FrameDescriptionEntry::new(Address::Constant(rng.below(0x10000)), len);
                let mut off = 0u32;
                for _ in 0..rng.usize(8) {
                    off += (rng.below(20) as u32) * caf as u32;
                    fde.add_instruction(off, instr(rng, daf));
                }
                table.add_fde(cie_id, fde);
            }
        }
        let mut df = gimli::write::DebugFrame(EndianVec::new(endian(be)));
        let mut eh = gimli::write::EhFrame(EndianVec::new(endian(be)));
        let a = table.write_debug_frame(&mut df).ok().map(|_| df.0.slice().to_vec());
        let b = table.write_eh_frame(&mut eh).ok().map(|_| eh.0.slice().to_vec());
        match (a, b) {
            (Some(a), Some(b)) => Some((a, b)),
            (Some(a), None) => Some((a, Vec::new())),
            (None, Some(b)) => Some((Vec::new(), b)),
            _ => None,
        }
    });
    res.unwrap_or(None)
}

trait IntoPe {
    fn into_pe(self) -> c::DwEhPe;
}
impl IntoPe for u8 {
    fn into_pe(self) -> c::DwEhPe {
        c::DwEhPe(self | c::DW_EH_PE_sdata4.0)
    }
}

fn instr(rng: &mut Rng, daf: i8) -> CallFrameInstruction {
    let reg = Register(rng.below(32) as u16);
    let off = (rng.below(16) as i32 - 8) * daf as i32;
    match rng.below(16) {
        0 => CallFrameInstruction::Cfa(reg, off.abs()),
        1 => CallFrameInstruction::CfaRegister(reg),
        2 => CallFrameInstruction::CfaOffset(off.abs()),
        3 => CallFrameInstruction::Restore(reg),
        4 => CallFrameInstruction::Undefined(reg),
        5 => CallFrameInstruction::SameValue(reg),
        6 => CallFrameInstruction::Offset(reg, off),
        7 => CallFrameInstruction::ValOffset(reg, off),
        8 => CallFrameInstruction::Register(reg, Register(rng.below(32) as u16)),
        9 => CallFrameInstruction::RememberState,
        10 => CallFrameInstruction::RestoreState,
        11 => CallFrameInstruction::ArgsSize(rng.below(64) as u32),
        12 => CallFrameInstruction::Expression(reg, small_expr(rng, None)),
        13 => CallFrameInstruction::ValExpression(reg, small_expr(rng, None)),
        14 => CallFrameInstruction::CfaExpression(small_expr(rng, None)),
        _ => CallFrameInstruction::Offset(reg, off),
    }
}
