//! A small byte assembler plus structure-aware generators for what gimli's writer
//! cannot emit. Generators produce *mostly* well-formed data with boundary values; the
//! corruption operators then damage it.

use crate::rng::Rng;

#[derive(Clone, Debug)]
pub struct Asm {
    pub v: Vec<u8>,
    pub be: bool,
}

impl Asm {
    pub fn new(be: bool) -> Asm {
        Asm { v: Vec::new(), be }
    }
    pub fn len(&self) -> usize {
        self.v.len()
    }
    pub fn u8(&mut self, x: u8) -> &mut Self {
        self.v.push(x);
        self
    }
    pub fn uint(&mut self, x: u64, w: usize) -> &mut Self {
        for i in 0..w {
            let sh = if self.be { (w - 1 - i) * 8 } else { i * 8 };
            self.v.push(if sh < 64 { (x >> sh) as u8 } else { 0 });
        }
        self
    }
    pub fn u16(&mut self, x: u16) -> &mut Self {
        self.uint(x as u64, 2)
    }
    pub fn u32(&mut self, x: u32) -> &mut Self {
        self.uint(x as u64, 4)
    }
    pub fn u64(&mut self, x: u64) -> &mut Self {
        self.uint(x, 8)
    }
    pub fn uleb(&mut self, mut x: u64) -> &mut Self {
        loop {
            let b = (x & 0x7f) as u8;
            x >>= 7;
            if x == 0 {
                self.v.push(b);
                break;
            }
            self.v.push(b | 0x80);
        }
        self
    }
    pub fn sleb(&mut self, mut x: i64) -> &mut Self {
        loop {
            let b = (x & 0x7f) as u8;
            x >>= 7;
            let done = (x == 0 && b & 0x40 == 0) || (x == -1 && b & 0x40 != 0);
            if done {
                self.v.push(b);
                break;
            }
            self.v.push(b | 0x80);
        }
        self
    }
    /// Format-sized word: 4 bytes (dwarf32) or 8 bytes (dwarf64).
    pub fn word(&mut self, x: u64, d64: bool) -> &mut Self {
        self.uint(x, if d64 { 8 } else { 4 })
    }
    pub fn bytes(&mut self, b: &[u8]) -> &mut Self {
        self.v.extend_from_slice(b);
        self
    }
    pub fn cstr(&mut self, s: &[u8]) -> &mut Self {
        self.v.extend_from_slice(s);
        self.v.push(0);
        self
    }
    /// Start a length-prefixed record; returns a token for `end_len`.
    pub fn begin_len(&mut self, d64: bool) -> (usize, bool) {
        if d64 {
            self.u32(0xffff_ffff);
            let p = self.v.len();
            self.u64(0);
            (p, true)
        } else {
            let p = self.v.len();
            self.u32(0);
            (p, false)
        }
    }
    /// Patch the length; `delta` lets generators lie about it.
    pub fn end_len(&mut self, tok: (usize, bool), delta: i64) {
        let (p, d64) = tok;
        let w = if d64 { 8 } else { 4 };
        let len = (self.v.len() - p - w) as i64 + delta;
        let mut tmp = Asm::new(self.be);
        tmp.uint(len as u64, w);
        self.v[p..p + w].copy_from_slice(&tmp.v);
    }
    pub fn patch_uint(&mut self, at: usize, x: u64, w: usize) {
        let mut tmp = Asm::new(self.be);
        tmp.uint(x, w);
        self.v[at..at + w].copy_from_slice(&tmp.v);
    }
    pub fn align(&mut self, a: usize) {
        while a > 0 && self.v.len() % a != 0 {
            self.v.push(0);
        }
    }
}

pub fn pick_addr_size(rng: &mut Rng) -> u8 {
    *rng.pick(&[1u8, 2, 4, 4, 8, 8, 8])
}

/// Small lie applied to a length/count field with low probability.
pub fn lie(rng: &mut Rng) -> i64 {
    if rng.chance(1, 12) {
        *rng.pick(&[-1i64, 1, -2, 2, 4, -4, 1000, -1000])
    } else {
        0
    }
}

pub fn name(rng: &mut Rng) -> Vec<u8> {
    let n = rng.usize(9);
    (0..n).map(|_| b'a' + rng.below(26) as u8).collect()
}

/// .debug_aranges with padding for every address size, zero tuples inside, tombstones.
pub fn aranges(rng: &mut Rng, be: bool) -> Vec<u8> {
    let mut a = Asm::new(be);
    let sets = 1 + rng.usize(3);
    for _ in 0..sets {
        let d64 = rng.chance(1, 4);
        let asz = pick_addr_size(rng);
        let start = a.len();
        let tok = a.begin_len(d64);
        a.u16(*rng.pick(&[2u16, 2, 2, 3, 2, 4, 0]));
        a.word(rng.interesting() & 0xffff, d64);
        a.u8(if rng.chance(1, 16) { rng.next() as u8 } else { asz });
        a.u8(if rng.chance(1, 16) { 1 } else { 0 });
        let tuple = 2 * asz as usize;
        let hl = a.len() - start;
        if hl % tuple != 0 && !rng.chance(1, 16) {
            for _ in 0..(tuple - hl % tuple) {
                a.u8(0);
            }
        }
        let n = rng.usize(6);
        let mask = if asz == 8 { u64::MAX } else { (1u64 << (8 * asz)) - 1 };
        for _ in 0..n {
            let (b, l) = match rng.below(8) {
                0 => (0, 0),
                1 => (mask, rng.below(4)),
                2 => (mask - 1, rng.below(4)),
                3 => (rng.interesting() & mask, rng.interesting() & mask),
                4 => (mask - 3, 3 + rng.below(3)),
                _ => (rng.below(0x10000) & mask, rng.below(0x100)),
            };
            a.uint(b, asz as usize);
            a.uint(l, asz as usize);
        }
        if !rng.chance(1, 8) {
            a.uint(0, asz as usize);
            a.uint(0, asz as usize);
        }
        let d = lie(rng);
        a.end_len(tok, d);
    }
    a.v
}

/// .debug_addr (v5) with several sets.
pub fn addr(rng: &mut Rng, be: bool) -> Vec<u8> {
    let mut a = Asm::new(be);
    for _ in 0..1 + rng.usize(3) {
        let d64 = rng.chance(1, 4);
        let asz = pick_addr_size(rng);
        let tok = a.begin_len(d64);
        a.u16(*rng.pick(&[5u16, 5, 5, 5, 4, 6]));
        a.u8(if rng.chance(1, 16) { rng.next() as u8 } else { asz });
        a.u8(if rng.chance(1, 16) { 1 } else { 0 });
        for _ in 0..rng.usize(8) {
            a.uint(rng.interesting(), asz as usize);
        }
        if rng.chance(1, 8) {
            a.u8(0); // ragged tail
        }
        let d = lie(rng);
        a.end_len(tok, d);
    }
    a.v
}

/// .debug_pubnames / .debug_pubtypes.
pub fn pubs(rng: &mut Rng, be: bool) -> Vec<u8> {
    let mut a = Asm::new(be);
    for _ in 0..1 + rng.usize(3) {
        let d64 = rng.chance(1, 4);
        let tok = a.begin_len(d64);
        a.u16(*rng.pick(&[2u16, 2, 2, 2, 3, 0]));
        a.word(rng.interesting() & 0xfffff, d64);
        a.word(rng.interesting() & 0xfffff, d64);
        for _ in 0..rng.usize(6) {
            a.word(1 + rng.below(0x1000), d64);
            let nm = name(rng);
            if rng.chance(1, 16) {
                a.bytes(&nm); // unterminated
            } else {
                a.cstr(&nm);
            }
        }
        if !rng.chance(1, 8) {
            a.word(0, d64);
        }
        let d = lie(rng);
        a.end_len(tok, d);
    }
    a.v
}

/// A string table and a .debug_str_offsets table pointing into it.
pub fn strs(rng: &mut Rng, be: bool) -> (Vec<u8>, Vec<u8>) {
    let mut s = Asm::new(be);
    let mut starts = Vec::new();
    for _ in 0..1 + rng.usize(8) {
        starts.push(s.len() as u64);
        let nm = name(rng);
        s.cstr(&nm);
    }
    if rng.chance(1, 8) {
        s.bytes(b"unterminated");
    }
    let mut o = Asm::new(be);
    let d64 = rng.chance(1, 4);
    let tok = o.begin_len(d64);
    o.u16(5);
    o.u16(0);
    for _ in 0..rng.usize(10) {
        let t = if rng.chance(1, 6) { rng.interesting() } else { *rng.pick(&starts) };
        o.word(t, d64);
    }
    let d = lie(rng);
    o.end_len(tok, d);
    (s.v, o.v)
}
