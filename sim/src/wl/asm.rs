//! A small byte assembler plus structure-aware generators for what gimli's writer
//! cannot emit. Generators produce *mostly* well-formed data with boundary values; the
//! corruption operators then damage it.

use crate::rng::Rng;

#[derive(Clone, Debug)]
pub struct Asm {
    pub v: Vec<u8>,
    pub be: bool,
}

impl Asm {
    pub fn new(be: bool) -> Asm {
        Asm { v: Vec::new(), be }
    }
    pub fn len(&self) -> usize {
        self.v.len()
    }
    pub fn u8(&mut self, x: u8) -> &mut Self {
        self.v.push(x);
        self
    }
    pub fn uint(&mut self, x: u64, w: usize) -> &mut Self {
        for i in 0..w {
            let sh = if self.be { (w - 1 - i) * 8 } else { i * 8 };
            self.v.push(if sh < 64 { (x >> sh) as u8 } else { 0 });
        }
        self
    }
    pub fn u16(&mut self, x: u16) -> &mut Self {
        self.uint(x as u64, 2)
    }
    pub fn u32(&mut self, x: u32) -> &mut Self {
        self.uint(x as u64, 4)
    }
    pub fn u64(&mut self, x: u64) -> &mut Self {
        self.uint(x, 8)
    }
    pub fn uleb(&mut self, mut x: u64) -> &mut Self {
        loop {
            let b = (x & 0x7f) as u8;
            x >>= 7;
            if x == 0 {
                self.v.push(b);
                break;
            }
            self.v.push(b | 0x80);
        }
        self
    }
    pub fn sleb(&mut self, mut x: i64) -> &mut Self {
        loop {
            let b = (x & 0x7f) as u8;
            x >>= 7;
            let done = (x == 0 && b & 0x40 == 0) || (x == -1 && b & 0x40 != 0);
            if done {
                self.v.push(b);
                break;
            }
            self.v.push(b | 0x80);
        }
        self
    }
    /// Format-sized word: 4 bytes (dwarf32) or 8 bytes (dwarf64).
    pub fn word(&mut self, x: u64, d64: bool) -> &mut Self {
        self.uint(x, if d64 { 8 } else { 4 })
    }
    pub fn bytes(&mut self, b: &[u8]) -> &mut Self {
        self.v.extend_from_slice(b);
        self
    }
    pub fn cstr(&mut self, s: &[u8]) -> &mut Self {
        self.v.extend_from_slice(s);
        self.v.push(0);
        self
    }
    /// Start a length-prefixed record; returns a token for `end_len`.
    pub fn begin_len(&mut self, d64: bool) -> (usize, bool) {
        if d64 {
            self.u32(0xffff_ffff);
            let p = self.v.len();
            self.u64(0);
            (p, true)
        } else {
            let p = self.v.len();
            self.u32(0);
            (p, false)
        }
    }
    /// Patch the length; `delta` lets generators lie about it.
    pub fn end_len(&mut self, tok: (usize, bool), delta: i64) {
        let (p, d64) = tok;
        let w = if d64 { 8 } else { 4 };
        let len = (self.v.len() - p - w) as i64 + delta;
        let mut tmp = Asm::new(self.be);
        tmp.uint(len as u64, w);
        self.v[p..p + w].copy_from_slice(&tmp.v);
    }
    pub fn patch_uint(&mut self, at: usize, x: u64, w: usize) {
        let mut tmp = Asm::new(self.be);
        tmp.uint(x, w);
        self.v[at..at + w].copy_from_slice(&tmp.v);
    }
    pub fn align(&mut self, a: usize) {
        while a > 0 && self.v.len() % a != 0 {
            self.v.push(0);
        }
    }
}

pub fn pick_addr_size(rng: &mut Rng) -> u8 {
    *rng.pick(&[1u8, 2, 4, 4, 8, 8, 8])
}

/// Small lie applied to a length/count field with low probability.
pub fn lie(rng: &mut Rng) -> i64 {
    if rng.chance(1, 12) {
        *rng.pick(&[-1i64, 1, -2, 2, 4, -4, 1000, -1000])
    } else {
        0
    }
}

pub fn name(rng: &mut Rng) -> Vec<u8> {
    let n = rng.usize(9);
    (0..n).map(|_| b'a' + rng.below(26) as u8).collect()
}

/// .debug_aranges with padding for every address size, zero tuples inside, tombstones.
pub fn aranges(rng: &mut Rng, be: bool) -> Vec<u8> {
    let mut a = Asm::new(be);
    let sets = 1 + rng.usize(3);
    for _ in 0..sets {
        let d64 = rng.chance(1, 4);
        let asz = pick_addr_size(rng);
        let start = a.len();
        let tok = a.begin_len(d64);
        a.u16(*rng.pick(&[2u16, 2, 2, 3, 2, 4, 0]));
        a.word(rng.interesting() & 0xffff, d64);
        a.u8(if rng.chance(1, 16) { rng.next() as u8 } else { asz });
        a.u8(if rng.chance(1, 16) { 1 } else { 0 });
        let tuple = 2 * asz as usize;
        let hl = a.len() - start;
        if hl % tuple != 0 && !rng.chance(1, 16) {
            for _ in 0..(tuple - hl % tuple) {
                a.u8(0);
            }
        }
        let n = rng.usize(6);
        let mask = if asz == 8 { u64::MAX } else { (1u64 << (8 * asz)) - 1 };
        for _ in 0..n {
            let (b, l) = match rng.below(8) {
                0 => (0, 0),
                1 => (mask, rng.below(4)),
                2 => (mask - 1, rng.below(4)),
                3 => (rng.interesting() & mask, rng.interesting() & mask),
                4 => (mask - 3, 3 + rng.below(3)),
                _ => (rng.below(0x10000) & mask, rng.below(0x100)),
            };
            a.uint(b, asz as usize);
            a.uint(l, asz as usize);
        }
        if !rng.chance(1, 8) {
            a.uint(0, asz as usize);
            a.uint(0, asz as usize);
        }
        let d = lie(rng);
        a.end_len(tok, d);
    }
    a.v
}

/// .debug_addr (v5) with several sets.
pub fn addr(rng: &mut Rng, be: bool) -> Vec<u8> {
    let mut a = Asm::new(be);
    for _ in 0..1 + rng.usize(3) {
        let d64 = rng.chance(1, 4);
        let asz = pick_addr_size(rng);
        let tok = a.begin_len(d64);
        a.u16(*rng.pick(&[5u16, 5, 5, 5, 4, 6]));
        a.u8(if rng.chance(1, 16) { rng.next() as u8 } else { asz });
        a.u8(if rng.chance(1, 16) { 1 } else { 0 });
        for _ in 0..rng.usize(8) {
            a.uint(rng.interesting(), asz as usize);
        }
        if rng.chance(1, 8) {
            a.u8(0); // ragged tail
        }
        let d = lie(rng);
        a.end_len(tok, d);
    }
    a.v
}

/// .debug_pubnames / .debug_pubtypes.
pub fn pubs(rng: &mut Rng, be: bool) -> Vec<u8> {
    let mut a = Asm::new(be);
    for _ in 0..1 + rng.usize(3) {
        let d64 = rng.chance(1, 4);
        let tok = a.begin_len(d64);
        a.u16(*rng.pick(&[2u16, 2, 2, 2, 3, 0]));
        a.word(rng.interesting() & 0xfffff, d64);
        a.word(rng.interesting() & 0xfffff, d64);
        for _ in 0..rng.usize(6) {
            a.word(1 + rng.below(0x1000), d64);
            let nm = name(rng);
            if rng.chance(1, 16) {
                a.bytes(&nm); // unterminated
            } else {
                a.cstr(&nm);
            }
        }
        if !rng.chance(1, 8) {
            a.word(0, d64);
        }
        let d = lie(rng);
        a.end_len(tok, d);
    }
    a.v
}

/// A string table and a .debug_str_offsets table pointing into it.
pub fn strs(rng: &mut Rng, be: bool) -> (Vec<u8>, Vec<u8>) {
    let mut s = Asm::new(be);
    let mut starts = Vec::new();
    for _ in 0..1 + rng.usize(8) {
        starts.push(s.len() as u64);
        let nm = name(rng);
        s.cstr(&nm);
    }
    if rng.chance(1, 8) {
        s.bytes(b"unterminated");
    }
    let mut o = Asm::new(be);
    let d64 = rng.chance(1, 4);
    let tok = o.begin_len(d64);
    o.u16(5);
    o.u16(0);
    for _ in 0..rng.usize(10) {
        let t = if rng.chance(1, 6) { rng.interesting() } else { *rng.pick(&starts) };
        o.word(t, d64);
    }
    let d = lie(rng);
    o.end_len(tok, d);
    (s.v, o.v)
}

/// Parameters of a generated line program (returned so drivers/models can use them).
#[derive(Clone, Debug)]
pub struct LineParams {
    pub version: u16,
    pub d64: bool,
    pub addr_size: u8,
    pub min_inst_len: u8,
    pub max_ops: u8,
    pub line_base: i8,
    pub line_range: u8,
    pub opcode_base: u8,
}

/// A .debug_line program: header (v2-v5) + instruction stream over the full opcode set.
pub fn line_program(rng: &mut Rng, be: bool, addr_size: u8) -> Vec<u8> {
    let mut a = Asm::new(be);
    let programs = 1 + rng.usize(2);
    for _ in 0..programs {
        line_program_into(rng, &mut a, addr_size);
    }
    a.v
}

pub fn line_program_into(rng: &mut Rng, a: &mut Asm, addr_size: u8) -> LineParams {
    let version = *rng.pick(&[2u16, 3, 4, 4, 5, 5, 5]);
    let d64 = rng.chance(1, 5);
    let p = LineParams {
        version,
        d64,
        addr_size,
        min_inst_len: *rng.pick(&[1u8, 1, 1, 2, 4, 255]),
        max_ops: if version >= 4 { *rng.pick(&[1u8, 1, 1, 2, 4, 255]) } else { 1 },
        line_base: *rng.pick(&[-5i8, -3, -1, 0, -128, 127, 1]),
        line_range: *rng.pick(&[14u8, 12, 1, 4, 255, 10]),
        opcode_base: *rng.pick(&[13u8, 13, 13, 10, 1, 2, 14, 20, 255]),
    };
    let unit = a.begin_len(d64);
    a.u16(if rng.chance(1, 24) { *rng.pick(&[0u16, 1, 6, 0xffff]) } else { version });
    if version >= 5 {
        a.u8(if rng.chance(1, 24) { rng.next() as u8 } else { addr_size });
        a.u8(if rng.chance(1, 32) { 1 } else { 0 });
    }
    // header_length placeholder
    let hl_at = a.len();
    a.word(0, d64);
    let hl_start = a.len();
    a.u8(if rng.chance(1, 32) { 0 } else { p.min_inst_len });
    if version >= 4 {
        a.u8(if rng.chance(1, 32) { 0 } else { p.max_ops });
    }
    a.u8(rng.bool() as u8);
    a.u8(p.line_base as u8);
    a.u8(if rng.chance(1, 32) { 0 } else { p.line_range });
    a.u8(if rng.chance(1, 32) { 0 } else { p.opcode_base });
    // standard_opcode_lengths: the standard ones correct for the first 12, random after
    const STD: [u8; 12] = [0, 1, 1, 1, 1, 0, 0, 0, 1, 0, 0, 1];
    for i in 1..p.opcode_base {
        let l = if (i as usize) <= 12 && !rng.chance(1, 16) { STD[i as usize - 1] } else { rng.below(4) as u8 };
        a.u8(l);
    }
    if version <= 4 {
        for _ in 0..rng.usize(3) {
            let mut nm = name(rng);
            nm.push(b'/');
            a.cstr(&nm);
        }
        a.u8(0);
        for _ in 0..rng.usize(4) {
            let mut nm = name(rng);
            nm.push(b'f');
            a.cstr(&nm);
            a.uleb(rng.below(4));
            a.uleb(rng.interesting());
            a.uleb(rng.interesting());
        }
        if !rng.chance(1, 16) {
            a.u8(0);
        }
    } else {
        // v5 entry formats
        for is_file in [false, true] {
            let mut fmts: Vec<(u64, u64)> = vec![(1, *rng.pick(&[0x08u64, 0x1f, 0x0e, 0x08, 0x25, 0x26, 0x1a]))];
            if is_file {
                if rng.bool() {
                    fmts.push((2, *rng.pick(&[0x0bu64, 0x0f, 0x05])));
                }
                if rng.chance(1, 3) {
                    fmts.push((3, *rng.pick(&[0x0fu64, 0x06, 0x07, 0x09])));
                }
                if rng.chance(1, 3) {
                    fmts.push((4, *rng.pick(&[0x0fu64, 0x0b, 0x05, 0x06, 0x07])));
                }
                if rng.chance(1, 3) {
                    fmts.push((5, *rng.pick(&[0x1eu64, 0x1e, 0x0a, 0x09])));
                }
                if rng.chance(1, 4) {
                    fmts.push((0x2001, *rng.pick(&[0x08u64, 0x1f])));
                }
            }
            if rng.chance(1, 6) {
                fmts.push((rng.interesting(), *rng.pick(&[0x0fu64, 0x0d, 0x0c, 0x17, 0x0b, 0x01, 0x19, 0x21])));
            }
            if rng.chance(1, 24) {
                fmts.remove(0); // no path: MissingFileEntryFormatPath
            }
            if rng.chance(1, 8) {
                let k = rng.usize(fmts.len().max(1));
                if !fmts.is_empty() {
                    fmts.swap(0, k);
                }
            }
            a.u8(fmts.len() as u8);
            for (ct, form) in &fmts {
                a.uleb(*ct);
                a.uleb(*form);
            }
            let count = rng.usize(4) as u64;
            a.uleb(if rng.chance(1, 24) { rng.interesting() } else { count });
            for _ in 0..count {
                for (_, form) in &fmts {
                    emit_form(rng, a, *form, d64);
                }
            }
        }
    }
    if rng.chance(1, 12) {
        a.bytes(&[0, 0, 0][..rng.usize(3)]); // slack before the program
    }
    let hl = (a.len() - hl_start) as i64 + lie(rng);
    a.patch_uint(hl_at, hl as u64, if d64 { 8 } else { 4 });
    // instruction stream
    let n = rng.usize(40);
    let mut open = false;
    for _ in 0..n {
        line_instruction(rng, a, &p, &mut open);
    }
    if open || rng.bool() {
        a.u8(0).uleb(1).u8(1); // end_sequence
    }
    let d = lie(rng);
    a.end_len(unit, d);
    p
}

fn emit_form(rng: &mut Rng, a: &mut Asm, form: u64, d64: bool) {
    match form {
        0x08 => {
            let nm = name(rng);
            a.cstr(&nm);
        }
        0x1f | 0x0e | 0x17 | 0x1d | 0x1f21 => {
            a.word(rng.below(64), d64);
        }
        0x0b | 0x0c | 0x25 => {
            a.u8(rng.next() as u8);
        }
        0x05 | 0x26 => {
            a.u16(rng.next() as u16);
        }
        0x06 | 0x28 => {
            a.u32(rng.next() as u32);
        }
        0x07 => {
            a.u64(rng.interesting());
        }
        0x0f | 0x1a => {
            a.uleb(rng.interesting());
        }
        0x0d => {
            a.sleb(rng.interesting() as i64);
        }
        0x1e => {
            let b = rng.bytes(16);
            a.bytes(&b);
        }
        0x0a => {
            let l = *rng.pick(&[16usize, 16, 0, 3]);
            a.u8(l as u8);
            let b = rng.bytes(l);
            a.bytes(&b);
        }
        0x09 => {
            let l = *rng.pick(&[16usize, 0, 5]);
            a.uleb(l as u64);
            let b = rng.bytes(l);
            a.bytes(&b);
        }
        0x01 => {
            let l = rng.usize(5);
            a.u16(l as u16);
            let b = rng.bytes(l);
            a.bytes(&b);
        }
        _ => {}
    }
}

fn line_instruction(rng: &mut Rng, a: &mut Asm, p: &LineParams, open: &mut bool) {
    let asz = p.addr_size as usize;
    let mask = if asz >= 8 { u64::MAX } else { (1u64 << (8 * asz)) - 1 };
    match rng.below(24) {
        0..=7 => {
            // special opcode
            let lo = p.opcode_base as u64;
            let op = if lo >= 255 { 255 } else { rng.range(lo, 255) };
            a.u8(op as u8);
            *open = true;
        }
        8 => {
            a.u8(1);
            *open = true;
        }
        9 => {
            a.u8(2).uleb(if rng.chance(1, 6) { rng.interesting() } else { rng.below(64) });
        }
        10 => {
            let v = if rng.chance(1, 6) { *rng.pick(&[i64::MIN, i64::MAX, -1, i64::MIN + 1]) } else { rng.below(40) as i64 - 20 };
            a.u8(3).sleb(v);
        }
        11 => {
            a.u8(4).uleb(rng.below(6));
        }
        12 => {
            a.u8(5).uleb(rng.interesting());
        }
        13 => {
            a.u8(*rng.pick(&[6u8, 7, 10, 11]));
        }
        14 => {
            a.u8(8);
        }
        15 => {
            a.u8(9).u16(if rng.chance(1, 4) { 0xffff } else { rng.below(256) as u16 });
        }
        16 => {
            a.u8(12).uleb(rng.interesting());
        }
        17 => {
            // unknown standard opcode (if opcode_base allows) with operands
            let op = rng.range(13, 30) as u8;
            a.u8(op);
            for _ in 0..rng.usize(3) {
                a.uleb(rng.below(300));
            }
        }
        18 | 19 => {
            // set_address
            let addr = match rng.below(6) {
                0 => 0,
                1 => mask,
                2 => mask - 1,
                3 => rng.interesting() & mask,
                _ => rng.below(0x10000) & mask,
            };
            a.u8(0).uleb(1 + asz as u64).u8(2).uint(addr, asz);
        }
        20 => {
            a.u8(0).uleb(1).u8(1);
            *open = false;
        }
        21 => {
            // define_file
            let nm = name(rng);
            let mut body = Asm::new(a.be);
            body.u8(3).cstr(&nm).uleb(rng.below(4)).uleb(rng.below(1000)).uleb(rng.interesting());
            a.u8(0).uleb((body.len() as u64).wrapping_add(lie(rng) as u64)).bytes(&body.v);
        }
        22 => {
            a.u8(0).uleb(1 + 1).u8(4).uleb(rng.below(100));
        }
        _ => {
            // unknown / malformed extended opcode
            let l = if rng.chance(1, 4) { rng.interesting() } else { rng.below(8) };
            a.u8(0).uleb(l).u8(rng.next() as u8);
            let b = rng.bytes((l as usize).min(8).saturating_sub(1));
            a.bytes(&b);
        }
    }
}

/// .debug_macinfo or .debug_macro content.
pub fn macros(rng: &mut Rng, be: bool, is_macro: bool) -> Vec<u8> {
    let mut a = Asm::new(be);
    let mut d64 = false;
    if is_macro {
        a.u16(*rng.pick(&[5u16, 4, 5, 0]));
        let mut flags = 0u8;
        d64 = rng.chance(1, 4);
        if d64 {
            flags |= 1;
        }
        let has_line = rng.bool();
        if has_line {
            flags |= 2;
        }
        if rng.chance(1, 16) {
            flags |= 4;
        }
        if rng.chance(1, 16) {
            flags |= 0xf8 & rng.next() as u8;
        }
        a.u8(flags);
        if has_line {
            a.word(rng.below(256), d64);
        }
    }
    for _ in 0..rng.usize(10) {
        let t = if is_macro { *rng.pick(&[1u8, 2, 3, 4, 5, 6, 7, 8, 9, 10, 11, 12, 0x80, 0xff]) } else { *rng.pick(&[1u8, 2, 3, 4, 0xff, 5, 9]) };
        a.u8(t);
        match t {
            1 | 2 => {
                a.uleb(rng.below(1000));
                let nm = name(rng);
                if rng.chance(1, 12) { a.bytes(&nm); } else { a.cstr(&nm); }
            }
            3 => {
                a.uleb(rng.below(1000)).uleb(rng.below(10));
            }
            4 => {}
            5 | 6 | 8 | 9 if is_macro => {
                a.uleb(rng.below(1000)).word(rng.interesting(), d64);
            }
            7 | 10 if is_macro => {
                a.word(rng.interesting(), d64);
            }
            11 | 12 if is_macro => {
                a.uleb(rng.below(1000)).uleb(rng.interesting());
            }
            0xff if !is_macro => {
                a.uleb(rng.interesting());
                let nm = name(rng);
                a.cstr(&nm);
            }
            _ => {}
        }
    }
    if !rng.chance(1, 4) {
        a.u8(0);
    }
    a.v
}

fn addr_val(rng: &mut Rng, asz: u8) -> u64 {
    let mask = if asz >= 8 { u64::MAX } else { (1u64 << (8 * asz as u32)) - 1 };
    match rng.below(8) {
        0 => 0,
        1 => 1,
        2 => mask,
        3 => mask - 1,
        4 => mask - 2,
        5 => rng.interesting() & mask,
        _ => rng.below(0x10000) & mask,
    }
}

fn small_expr(rng: &mut Rng) -> Vec<u8> {
    match rng.below(5) {
        0 => vec![],
        1 => vec![0x50 + rng.below(32) as u8],
        2 => vec![0x91, rng.below(128) as u8],
        3 => vec![0x30 + rng.below(32) as u8, 0x9f],
        _ => {
            let n = rng.usize(6);
            rng.bytes(n)
        }
    }
}

/// Lists in all encodings. Returns (debug_ranges, debug_rnglists, debug_loc, debug_loclists,
/// offset of the first v5 list after the header).
pub fn lists(rng: &mut Rng, be: bool, asz: u8, d64: bool, version: u16) -> (Vec<u8>, Vec<u8>, Vec<u8>, Vec<u8>, usize) {
    let w = asz as usize;
    let mask = if asz >= 8 { u64::MAX } else { (1u64 << (8 * asz as u32)) - 1 };
    // legacy pairs
    let mut r = Asm::new(be);
    let mut l = Asm::new(be);
    for _ in 0..1 + rng.usize(2) {
        for _ in 0..rng.usize(6) {
            let (b, e) = match rng.below(6) {
                0 => (mask, addr_val(rng, asz)), // base address selection
                1 => {
                    let x = addr_val(rng, asz);
                    (x, x)
                }
                2 => (addr_val(rng, asz), addr_val(rng, asz)),
                _ => {
                    let x = rng.below(0x1000) & mask;
                    (x, (x + 1 + rng.below(0x100)) & mask)
                }
            };
            r.uint(b, w).uint(e, w);
            l.uint(b, w).uint(e, w);
            if b != mask && !(b == 0 && e == 0) {
                let x = small_expr(rng);
                let len = if rng.chance(1, 16) { rng.interesting() as u16 } else { x.len() as u16 };
                l.u16(len).bytes(&x);
            }
        }
        if !rng.chance(1, 8) {
            r.uint(0, w).uint(0, w);
            l.uint(0, w).uint(0, w);
        }
    }
    // v5 (or GNU split-dwarf LLE in .debug_loc when version <= 4: 2-byte lengths)
    let mut rl = Asm::new(be);
    let mut ll = Asm::new(be);
    let mut first = 0usize;
    for (is_loc, a) in [(false, &mut rl), (true, &mut ll)] {
        let tok = a.begin_len(d64);
        a.u16(5).u8(asz).u8(0);
        let n_off = rng.usize(3) as u32;
        a.u32(n_off);
        let table_at = a.len();
        for _ in 0..n_off {
            a.word(0, d64);
        }
        if !is_loc {
            first = a.len();
        }
        let nlists = 1 + rng.usize(2);
        for li in 0..nlists {
            if (li as u32) < n_off {
                let rel = (a.len() - table_at) as u64;
                a.patch_uint(table_at + li * if d64 { 8 } else { 4 }, if rng.chance(1, 12) { rng.interesting() } else { rel }, if d64 { 8 } else { 4 });
            }
            for _ in 0..rng.usize(6) {
                let kind = if rng.chance(1, 16) { rng.next() as u8 } else { 1 + rng.below(if is_loc { 8 } else { 7 }) as u8 };
                a.u8(kind);
                let mut has_data = is_loc;
                match kind {
                    1 => {
                        a.uleb(if rng.chance(1, 8) { rng.interesting() } else { rng.below(6) });
                        has_data = false;
                    }
                    2 => {
                        a.uleb(rng.below(6)).uleb(if rng.chance(1, 8) { rng.interesting() } else { rng.below(6) });
                    }
                    3 => {
                        a.uleb(rng.below(6)).uleb(if rng.chance(1, 4) { rng.interesting() } else { rng.below(0x100) });
                    }
                    4 => {
                        let b = rng.below(0x1000);
                        a.uleb(b).uleb(if rng.chance(1, 6) { rng.interesting() } else { b + rng.below(0x100) });
                    }
                    5 if is_loc => {}
                    5 | 6 if (kind == 5 && !is_loc) || (kind == 6 && is_loc) => {
                        a.uint(addr_val(rng, asz), w);
                        has_data = false;
                    }
                    6 | 7 if (kind == 6 && !is_loc) || (kind == 7 && is_loc) => {
                        let b = addr_val(rng, asz);
                        a.uint(b, w).uint(if rng.bool() { addr_val(rng, asz) } else { b.wrapping_add(rng.below(64)) & mask }, w);
                    }
                    7 | 8 => {
                        a.uint(addr_val(rng, asz), w).uleb(if rng.chance(1, 4) { rng.interesting() } else { rng.below(0x100) });
                    }
                    _ => {
                        has_data = false;
                    }
                }
                if has_data {
                    let x = small_expr(rng);
                    if version >= 5 {
                        a.uleb(if rng.chance(1, 16) { rng.interesting() } else { x.len() as u64 });
                    } else {
                        a.u16(x.len() as u16);
                    }
                    a.bytes(&x);
                }
            }
            if !rng.chance(1, 8) {
                a.u8(0);
            }
        }
        let d = lie(rng);
        a.end_len(tok, d);
    }
    (r.v, rl.v, l.v, ll.v, first)
}

/// `.debug_loc.dwo` of the GNU split-DWARF extension (DWARF <= 4): DW_LLE kinds without
/// a header, 4-byte startx_length lengths and 2-byte expression lengths.
pub fn gnu_loc(rng: &mut Rng, be: bool, asz: u8) -> Vec<u8> {
    let w = asz as usize;
    let mask = if asz >= 8 { u64::MAX } else { (1u64 << (8 * asz as u32)) - 1 };
    let mut a = Asm::new(be);
    for _ in 0..1 + rng.usize(2) {
        for _ in 0..rng.usize(6) {
            let kind = if rng.chance(1, 16) { rng.next() as u8 } else { 1 + rng.below(8) as u8 };
            a.u8(kind);
            let mut has_data = true;
            match kind {
                1 => {
                    a.uleb(if rng.chance(1, 8) { rng.interesting() } else { rng.below(6) });
                    has_data = false;
                }
                2 => {
                    a.uleb(rng.below(6)).uleb(if rng.chance(1, 8) { rng.interesting() } else { rng.below(6) });
                }
                3 => {
                    a.uleb(rng.below(6)).u32(if rng.chance(1, 4) { rng.interesting() as u32 } else { rng.below(0x100) as u32 });
                }
                4 => {
                    let b = rng.below(0x1000);
                    a.uleb(b).uleb(if rng.chance(1, 6) { rng.interesting() } else { b + rng.below(0x100) });
                }
                5 => {}
                6 => {
                    a.uint(addr_val(rng, asz), w);
                    has_data = false;
                }
                7 => {
                    let b = addr_val(rng, asz);
                    a.uint(b, w).uint(if rng.bool() { addr_val(rng, asz) } else { b.wrapping_add(rng.below(64)) & mask }, w);
                }
                8 => {
                    a.uint(addr_val(rng, asz), w).u32(if rng.chance(1, 4) { rng.interesting() as u32 } else { rng.below(0x100) as u32 });
                }
                _ => {
                    has_data = false;
                }
            }
            if has_data {
                let x = small_expr(rng);
                a.u16(if rng.chance(1, 16) { rng.interesting() as u16 } else { x.len() as u16 });
                a.bytes(&x);
            }
        }
        if !rng.chance(1, 8) {
            a.u8(0);
        }
    }
    a.v
}

const AT_POOL: &[u64] = &[
    0x01, 0x02, 0x03, 0x10, 0x11, 0x12, 0x1b, 0x1c, 0x2e, 0x31, 0x3a, 0x40, 0x43, 0x49, 0x52, 0x55,
    0x58, 0x72, 0x73, 0x74, 0x76, 0x79, 0x8c, 0x2111, 0x2130, 0x2131, 0x2132, 0x2133, 0x13, 0x3e, 0x0b,
];
const FORM_POOL: &[u64] = &[
    0x01, 0x03, 0x04, 0x05, 0x06, 0x07, 0x08, 0x09, 0x0a, 0x0b, 0x0c, 0x0d, 0x0e, 0x0f, 0x10, 0x11,
    0x12, 0x13, 0x14, 0x15, 0x16, 0x17, 0x18, 0x19, 0x1a, 0x1b, 0x1c, 0x1d, 0x1e, 0x1f, 0x20, 0x21,
    0x22, 0x23, 0x24, 0x25, 0x26, 0x27, 0x28, 0x29, 0x2a, 0x2b, 0x2c, 0x1f01, 0x1f02, 0x1f20, 0x1f21,
];

#[derive(Clone, Debug)]
struct AbbrevSpec {
    code: u64,
    children: bool,
    attrs: Vec<(u64, u64)>,
}

fn emit_info_form(rng: &mut Rng, a: &mut Asm, form: u64, asz: u8, d64: bool, version: u16, depth: u32) {
    let small = |rng: &mut Rng| if rng.chance(1, 8) { rng.interesting() } else { rng.below(64) };
    match form {
        0x01 => {
            let v = addr_val(rng, asz);
            a.uint(v, asz as usize);
        }
        0x03 => {
            let l = rng.usize(6);
            a.u16(if rng.chance(1, 16) { 0xffff } else { l as u16 });
            let b = rng.bytes(l);
            a.bytes(&b);
        }
        0x04 => {
            let l = rng.usize(6);
            a.u32(if rng.chance(1, 16) { 0xffff_ffff } else { l as u32 });
            let b = rng.bytes(l);
            a.bytes(&b);
        }
        0x05 | 0x12 | 0x26 | 0x2a => {
            a.u16(small(rng) as u16);
        }
        0x06 | 0x13 | 0x28 | 0x2c | 0x1c => {
            a.u32(small(rng) as u32);
        }
        0x07 | 0x14 | 0x20 | 0x24 => {
            a.u64(small(rng));
        }
        0x08 => {
            let nm = name(rng);
            if rng.chance(1, 24) { a.bytes(&nm); } else { a.cstr(&nm); }
        }
        0x09 | 0x18 => {
            let x = small_expr(rng);
            a.uleb(if rng.chance(1, 16) { rng.interesting() } else { x.len() as u64 });
            a.bytes(&x);
        }
        0x0a => {
            let x = small_expr(rng);
            a.u8(x.len() as u8).bytes(&x);
        }
        0x0b | 0x0c | 0x11 | 0x25 | 0x29 => {
            a.u8(small(rng) as u8);
        }
        0x0d => {
            a.sleb(small(rng) as i64);
        }
        0x0e | 0x17 | 0x1d | 0x1f | 0x1f20 | 0x1f21 => {
            a.word(small(rng), d64);
        }
        0x10 => {
            // ref_addr: address-sized in v2, offset-sized later
            if version == 2 { a.uint(small(rng), asz as usize); } else { a.word(small(rng), d64); }
        }
        0x0f | 0x15 | 0x1a | 0x1b | 0x22 | 0x23 | 0x1f01 | 0x1f02 => {
            a.uleb(small(rng));
        }
        0x16 => {
            // indirect: the real form follows as uleb
            let f = if depth < 3 && rng.chance(1, 4) { 0x16 } else { *rng.pick(FORM_POOL) };
            let f = if f == 0x21 { 0x0b } else { f };
            a.uleb(f);
            emit_info_form(rng, a, f, asz, d64, version, depth + 1);
        }
        0x19 | 0x21 => {}
        0x1e => {
            let b = rng.bytes(16);
            a.bytes(&b);
        }
        0x27 | 0x2b => {
            a.uint(small(rng), 3);
        }
        _ => {}
    }
}

/// Hand-assembled .debug_abbrev + .debug_info (+ .debug_types): all unit types, all forms,
/// sparse/huge abbreviation codes, sibling pointers, null padding.
pub fn info(rng: &mut Rng, be: bool, asz: u8) -> (Vec<u8>, Vec<u8>, Vec<u8>) {
    let mut ab = Asm::new(be);
    let mut info = Asm::new(be);
    let mut types = Asm::new(be);
    let nunits = 1 + rng.usize(3);
    for ui in 0..nunits {
        let share = ui > 0 && rng.chance(1, 3);
        let abbrev_off = if share { 0 } else { ab.len() };
        // abbreviations
        let scheme = rng.below(4);
        let k = 1 + rng.usize(5);
        let mut specs = Vec::new();
        for i in 0..k {
            let code = match scheme {
                0 | 1 => i as u64 + 1,
                2 => (i as u64 + 1) * 1000 + rng.below(10),
                _ => if i == 0 { 1 } else { rng.interesting().max(2) },
            };
            let mut attrs = Vec::new();
            for _ in 0..rng.usize(6) {
                let at = match rng.below(16) {
                    0 => rng.below(0x4000),
                    1..=4 => 1 + rng.below(0x8c), // every standard attribute
                    _ => *rng.pick(AT_POOL),
                };
                let form = if rng.chance(1, 24) { rng.below(0x30) } else { *rng.pick(FORM_POOL) };
                attrs.push((at, form));
            }
            specs.push(AbbrevSpec { code, children: rng.chance(1, 3), attrs });
        }
        let mut implicit: Vec<Vec<i64>> = Vec::new();
        if !share {
            for s in &specs {
                ab.uleb(s.code);
                ab.uleb(if rng.chance(1, 24) { 0 } else if ui == 0 && s.code == specs[0].code { 0x11 } else { *rng.pick(&[0x2eu64, 0x34, 0x0b, 0x13, 0x1d, 0x24, 0x39, 0x41, 0x4a]) });
                ab.u8(if rng.chance(1, 32) { 2 } else { s.children as u8 });
                let mut imp = Vec::new();
                for (at, form) in &s.attrs {
                    ab.uleb(if rng.chance(1, 48) { 0 } else { *at });
                    ab.uleb(*form);
                    if *form == 0x21 {
                        let v = rng.interesting() as i64;
                        ab.sleb(v);
                        imp.push(v);
                    }
                }
                implicit.push(imp);
                ab.u8(0).u8(0);
            }
            if !rng.chance(1, 12) {
                ab.u8(0);
            }
        }
        // unit header
        let version = *rng.pick(&[2u16, 3, 4, 4, 5, 5, 5]);
        let d64 = rng.chance(1, 5);
        let in_types = version == 4 && rng.chance(1, 5);
        let a: &mut Asm = if in_types { &mut types } else { &mut info };
        let unit_start = a.len();
        let tok = a.begin_len(d64);
        a.u16(if rng.chance(1, 32) { *rng.pick(&[0u16, 1, 6, 0xffff]) } else { version });
        let asz_b = if rng.chance(1, 32) { rng.next() as u8 } else { asz };
        if version >= 5 {
            let ut = if rng.chance(1, 24) { rng.next() as u8 } else { *rng.pick(&[1u8, 1, 2, 3, 4, 5, 6]) };
            a.u8(ut).u8(asz_b).word(abbrev_off as u64, d64);
            match ut {
                4 | 5 => {
                    a.u64(rng.next());
                }
                2 | 6 => {
                    a.u64(rng.next());
                    a.word(if rng.chance(1, 6) { rng.interesting() } else { 0x20 }, d64);
                }
                _ => {}
            }
        } else {
            a.word(if rng.chance(1, 24) { rng.interesting() } else { abbrev_off as u64 }, d64).u8(asz_b);
            if in_types {
                a.u64(rng.next());
                a.word(if rng.chance(1, 6) { rng.interesting() } else { 0x20 }, d64);
            }
        }
        // DIE stream
        let mut depth = 0i32;
        let n = 1 + rng.usize(12);
        for di in 0..n {
            if depth > 0 && rng.chance(1, 4) {
                a.u8(0);
                depth -= 1;
                continue;
            }
            let s = if di == 0 { &specs[0] } else { rng.pick(&specs) };
            let code = if rng.chance(1, 32) { rng.interesting() } else { s.code };
            a.uleb(code);
            for (at, form) in &s.attrs {
                if *at == 0x01 && matches!(*form, 0x11 | 0x12 | 0x13 | 0x14 | 0x15) && !rng.chance(1, 4) {
                    // plausible sibling pointer: a bit ahead of here, relative to the unit
                    let here = (a.len() - unit_start) as u64;
                    let target = here + rng.below(24);
                    match *form {
                        0x11 => { a.u8(target as u8); }
                        0x12 => { a.u16(target as u16); }
                        0x13 => { a.u32(target as u32); }
                        0x14 => { a.u64(target); }
                        _ => { a.uleb(target); }
                    }
                } else {
                    emit_info_form(rng, a, *form, asz, d64, version, 0);
                }
            }
            if s.children {
                depth += 1;
            }
        }
        while depth > 0 && !rng.chance(1, 6) {
            a.u8(0);
            depth -= 1;
        }
        for _ in 0..rng.usize(3) {
            a.u8(0); // null padding
        }
        let d = lie(rng);
        a.end_len(tok, d);
        let _ = implicit;
    }
    (ab.v, info.v, types.v)
}

/// A coherent unit whose attributes refer to real lists and address-table entries, so that
/// list iteration, `die_ranges`, `attr_locations` and the read->write conversion of lists get
/// past the first lookup: the root DIE carries the base attributes of its version (or of the GNU
/// split-DWARF extension), children refer to range / location lists by offset or index, and
/// every table is generated with the geometry those attributes name. Values are biased to the
/// boundaries of the address size.
/// Size knob for DIE nesting: one unit whose DIEs form a chain `depth` deep (each DIE is the
/// only child of the previous one; a few have a small attribute), closed by `depth` nulls or
/// left open. Makes stack use proportional to nesting depth visible.
pub fn deep_chain(rng: &mut Rng, be: bool, asz: u8, depth: usize) -> (Vec<u8>, Vec<u8>) {
    let mut ab = Asm::new(be);
    // 1: compile unit with children; 2: children, no attributes; 3: children, one data1;
    // 4: leaf with one data1
    ab.uleb(1).uleb(0x11).u8(1).u8(0).u8(0);
    ab.uleb(2).uleb(0x0b).u8(1).u8(0).u8(0);
    ab.uleb(3).uleb(0x2e).u8(1).uleb(0x0b).uleb(0x0b).u8(0).u8(0);
    ab.uleb(4).uleb(0x34).u8(0).uleb(0x0b).uleb(0x0b).u8(0).u8(0);
    ab.u8(0);
    let version = *rng.pick(&[2u16, 4, 4, 5]);
    let mut info = Asm::new(be);
    let tok = info.begin_len(false);
    info.u16(version);
    if version >= 5 {
        info.u8(1).u8(asz).u32(0);
    } else {
        info.u32(0).u8(asz);
    }
    info.uleb(1);
    let mixed = rng.bool();
    for i in 0..depth {
        if mixed && i % 7 == 3 {
            info.uleb(3).u8(i as u8);
        } else {
            info.uleb(2);
        }
    }
    info.uleb(4).u8(1);
    if !rng.chance(1, 4) {
        for _ in 0..depth + 1 {
            info.u8(0);
        }
    }
    info.end_len(tok, 0);
    (ab.v, info.v)
}

/// Size knob for expression nesting: one unit whose root DIE has a DW_AT_location exprloc made
/// of `depth` nested DW_OP_entry_value operations around a DW_OP_reg0.
pub fn deep_expr(rng: &mut Rng, be: bool, asz: u8, depth: usize) -> (Vec<u8>, Vec<u8>) {
    let version = *rng.pick(&[4u16, 5, 5]);
    let op = if version >= 5 { 0xa3u8 } else { 0xf3 };
    // built from the inside out: prefixes (opcode + length of everything inside)
    let mut prefixes: Vec<Vec<u8>> = Vec::with_capacity(depth);
    let mut len = 1usize;
    for _ in 0..depth {
        let mut p = Asm::new(be);
        p.u8(op).uleb(len as u64);
        len += p.v.len();
        prefixes.push(p.v);
    }
    let mut expr = Vec::with_capacity(len);
    for p in prefixes.iter().rev() {
        expr.extend_from_slice(p);
    }
    expr.push(0x50);
    let mut ab = Asm::new(be);
    // 1: compile unit, no children, DW_AT_location exprloc (or block for v4)
    ab.uleb(1).uleb(0x11).u8(0).uleb(0x02).uleb(if version >= 4 { 0x18 } else { 0x09 }).u8(0).u8(0);
    ab.u8(0);
    let mut info = Asm::new(be);
    let tok = info.begin_len(false);
    info.u16(version);
    if version >= 5 {
        info.u8(1).u8(asz).u32(0);
    } else {
        info.u32(0).u8(asz);
    }
    info.uleb(1).uleb(expr.len() as u64).bytes(&expr);
    info.end_len(tok, 0);
    (ab.v, info.v)
}

pub fn info_lists(rng: &mut Rng, be: bool, asz: u8, dwo: bool) -> std::collections::BTreeMap<String, Vec<u8>> {
    let version = *rng.pick(&[2u16, 3, 4, 4, 4, 5, 5, 5]);
    info_lists_with(rng, be, asz, dwo, version, None)
}

/// A skeleton unit and the split unit it names (same version, same DWO id). Returns
/// (main sections, sections of the DWO file).
pub fn split_pair(rng: &mut Rng, be: bool, asz: u8) -> (std::collections::BTreeMap<String, Vec<u8>>, std::collections::BTreeMap<String, Vec<u8>>) {
    let version = *rng.pick(&[4u16, 4, 5, 5, 5]);
    let id = if rng.chance(1, 8) { rng.interesting() } else { rng.next() };
    let main = info_lists_with(rng, be, asz, false, version, Some(id));
    let split = info_lists_with(rng, be, asz, true, version, Some(id));
    (main, split)
}

pub fn info_lists_with(rng: &mut Rng, be: bool, asz: u8, dwo: bool, version: u16, dwo_id: Option<u64>) -> std::collections::BTreeMap<String, Vec<u8>> {
    let w = asz as usize;
    let mask = if asz >= 8 { u64::MAX } else { (1u64 << (8 * asz as u32)) - 1 };
    let d64 = rng.chance(1, 6);
    let ow = if d64 { 8 } else { 4 };
    let n_addr = 1 + rng.usize(6) as u64;
    let idx = |rng: &mut Rng| if rng.chance(1, 10) { rng.interesting() } else { rng.below(n_addr + 1) };
    let len_val = |rng: &mut Rng| match rng.below(6) {
        0 => rng.interesting(),
        1 => 0,
        2 => mask,
        _ => rng.below(0x100),
    };
    // .debug_addr
    let mut ad = Asm::new(be);
    let addr_base;
    if version >= 5 {
        let tok = ad.begin_len(d64);
        ad.u16(5).u8(asz).u8(0);
        addr_base = ad.len();
        for _ in 0..n_addr {
            ad.uint(addr_val(rng, asz), w);
        }
        ad.end_len(tok, 0);
    } else {
        addr_base = 0;
        for _ in 0..n_addr {
            ad.uint(addr_val(rng, asz), w);
        }
    }
    // range lists
    let mut rng_offsets: Vec<u64> = Vec::new(); // offsets usable with DW_FORM_sec_offset
    let mut loc_offsets: Vec<u64> = Vec::new();
    let mut r = Asm::new(be);
    let mut l = Asm::new(be);
    let mut rl = Asm::new(be);
    let mut ll = Asm::new(be);
    let (mut rnglists_base, mut loclists_base) = (0usize, 0usize);
    let n_lists = 1 + rng.usize(3);
    let gnu_loc_fmt = dwo && version <= 4;
    if version >= 5 {
        for (is_loc, a) in [(false, &mut rl), (true, &mut ll)] {
            let tok = a.begin_len(d64);
            a.u16(5).u8(asz).u8(0).u32(n_lists as u32);
            let table_at = a.len();
            if is_loc {
                loclists_base = table_at;
            } else {
                rnglists_base = table_at;
            }
            for _ in 0..n_lists {
                a.word(0, d64);
            }
            for li in 0..n_lists {
                a.patch_uint(table_at + li * ow, (a.len() - table_at) as u64, ow);
                if is_loc {
                    loc_offsets.push(a.len() as u64);
                } else {
                    rng_offsets.push(a.len() as u64);
                }
                for _ in 0..rng.usize(5) {
                    let kind = 1 + rng.below(if is_loc { 8 } else { 7 }) as u8;
                    a.u8(kind);
                    let mut has_data = is_loc;
                    match kind {
                        1 => {
                            a.uleb(idx(rng));
                            has_data = false;
                        }
                        2 => {
                            a.uleb(idx(rng)).uleb(idx(rng));
                        }
                        3 => {
                            a.uleb(idx(rng)).uleb(len_val(rng));
                        }
                        4 => {
                            let b = len_val(rng);
                            a.uleb(b).uleb(if rng.bool() { b.wrapping_add(rng.below(64)) } else { len_val(rng) });
                        }
                        5 if is_loc => {}
                        5 | 6 if (kind == 5 && !is_loc) || (kind == 6 && is_loc) => {
                            a.uint(addr_val(rng, asz), w);
                            has_data = false;
                        }
                        6 | 7 if (kind == 6 && !is_loc) || (kind == 7 && is_loc) => {
                            let b = addr_val(rng, asz);
                            a.uint(b, w).uint(if rng.bool() { addr_val(rng, asz) } else { b.wrapping_add(rng.below(64)) & mask }, w);
                        }
                        _ => {
                            a.uint(addr_val(rng, asz), w).uleb(len_val(rng));
                        }
                    }
                    if has_data {
                        let x = small_expr(rng);
                        a.uleb(x.len() as u64).bytes(&x);
                    }
                }
                a.u8(0);
            }
            a.end_len(tok, 0);
        }
    } else {
        for _ in 0..n_lists {
            rng_offsets.push(r.len() as u64);
            for _ in 0..rng.usize(5) {
                let (b, e) = match rng.below(5) {
                    0 => (mask, addr_val(rng, asz)),
                    1 => (addr_val(rng, asz), addr_val(rng, asz)),
                    _ => {
                        let x = len_val(rng) & mask;
                        (x, x.wrapping_add(1 + rng.below(0x100)) & mask)
                    }
                };
                if b == 0 && e == 0 {
                    continue;
                }
                r.uint(b, w).uint(e, w);
            }
            r.uint(0, w).uint(0, w);
        }
        for _ in 0..n_lists {
            loc_offsets.push(l.len() as u64);
            if gnu_loc_fmt {
                for _ in 0..rng.usize(5) {
                    let kind = 1 + rng.below(4) as u8;
                    l.u8(kind);
                    match kind {
                        1 => {
                            l.uleb(idx(rng));
                            continue;
                        }
                        2 => {
                            l.uleb(idx(rng)).uleb(idx(rng));
                        }
                        3 => {
                            l.uleb(idx(rng)).u32(len_val(rng) as u32);
                        }
                        _ => {
                            let b = len_val(rng);
                            l.uleb(b).uleb(if rng.bool() { b.wrapping_add(rng.below(64)) } else { len_val(rng) });
                        }
                    }
                    let x = small_expr(rng);
                    l.u16(x.len() as u16).bytes(&x);
                }
                l.u8(0);
            } else {
                for _ in 0..rng.usize(5) {
                    let (b, e) = match rng.below(5) {
                        0 => (mask, addr_val(rng, asz)),
                        1 => (addr_val(rng, asz), addr_val(rng, asz)),
                        _ => {
                            let x = len_val(rng) & mask;
                            (x, x.wrapping_add(1 + rng.below(0x100)) & mask)
                        }
                    };
                    if b == 0 && e == 0 {
                        continue;
                    }
                    l.uint(b, w).uint(e, w);
                    if b != mask {
                        let x = small_expr(rng);
                        l.u16(x.len() as u16).bytes(&x);
                    }
                }
                l.uint(0, w).uint(0, w);
            }
        }
    }
    // forms
    let ptr_form: u64 = if version >= 4 { 0x17 } else if d64 { 0x07 } else { 0x06 };
    let rng_form = if version >= 5 && rng.bool() { 0x23 } else { ptr_form };
    let loc_form = if version >= 5 && rng.bool() { 0x22 } else { ptr_form };
    let addrx_form: Option<u64> = if version >= 5 { Some(0x1b) } else if dwo { Some(0x1f01) } else { None };
    let use_addrx = addrx_form.is_some() && rng.bool();
    // abbreviations
    let mut ab = Asm::new(be);
    let mut root_attrs: Vec<(u64, u64)> = vec![(0x11, 0x01)];
    let with_bases = !rng.chance(1, 5);
    if with_bases {
        if version >= 5 {
            root_attrs.push((0x73, 0x17));
            root_attrs.push((0x74, 0x17));
            root_attrs.push((0x8c, 0x17));
        } else if dwo {
            root_attrs.push((0x2133, ptr_form));
            // DW_AT_GNU_ranges_base: added to DW_AT_ranges offsets in a DWO file
            if rng.bool() {
                root_attrs.push((0x2132, ptr_form));
            }
        }
    }
    let root_ranges = rng.bool();
    if root_ranges {
        root_attrs.push((0x55, rng_form));
    }
    if version < 5 && dwo_id.is_some() {
        // DW_AT_GNU_dwo_id
        root_attrs.push((0x2131, 0x07));
    }
    ab.uleb(1).uleb(if version >= 5 && dwo && rng.bool() { 0x4a } else { 0x11 }).u8(1);
    for (a, f) in &root_attrs {
        ab.uleb(*a).uleb(*f);
    }
    ab.u8(0).u8(0);
    // 2: variable with a location list
    ab.uleb(2).uleb(0x34).u8(0).uleb(0x02).uleb(loc_form).u8(0).u8(0);
    // 3: subprogram with low_pc / high_pc / ranges
    let low_form = if use_addrx { addrx_form.unwrap() } else { 0x01 };
    let high_form = *rng.pick(&[0x0fu64, 0x06, 0x01]);
    ab.uleb(3).uleb(0x2e).u8(0).uleb(0x11).uleb(low_form).uleb(0x12).uleb(high_form).uleb(0x55).uleb(rng_form).u8(0).u8(0);
    // 4: variable with an expression
    ab.uleb(4).uleb(0x34).u8(0).uleb(0x02).uleb(if version >= 4 { 0x18 } else { 0x0a }).u8(0).u8(0);
    // 5: lexical block with low_pc/high_pc only
    ab.uleb(5).uleb(0x0b).u8(0).uleb(0x11).uleb(low_form).uleb(0x12).uleb(high_form).u8(0).u8(0);
    ab.u8(0);
    // unit
    let mut a = Asm::new(be);
    let tok = a.begin_len(d64);
    a.u16(version);
    if version >= 5 {
        let ut = match (dwo_id, dwo) {
            (Some(_), true) => 5,
            (Some(_), false) => 4,
            (None, true) => *rng.pick(&[5u8, 5, 1]),
            (None, false) => *rng.pick(&[1u8, 1, 4]),
        };
        a.u8(ut).u8(asz).word(0, d64);
        if ut == 4 || ut == 5 {
            a.u64(dwo_id.unwrap_or_else(|| rng.next()));
        }
    } else {
        a.word(0, d64).u8(asz);
    }
    let list_ref = |rng: &mut Rng, offs: &[u64], base: usize, form: u64| -> u64 {
        if rng.chance(1, 12) {
            return rng.interesting();
        }
        if form == 0x22 || form == 0x23 {
            rng.below(offs.len() as u64 + 1)
        } else {
            let o = *rng.pick(offs);
            let _ = base;
            if rng.chance(1, 10) { o.wrapping_add(1) } else { o }
        }
    };
    let emit_ref = |a: &mut Asm, form: u64, v: u64| match form {
        0x22 | 0x23 => {
            a.uleb(v);
        }
        0x06 => {
            a.u32(v as u32);
        }
        0x07 => {
            a.u64(v);
        }
        _ => {
            a.word(v, d64);
        }
    };
    let emit_low = |rng: &mut Rng, a: &mut Asm| {
        if low_form == 0x01 {
            a.uint(addr_val(rng, asz), w);
        } else {
            a.uleb(idx(rng));
        }
    };
    let emit_high = |rng: &mut Rng, a: &mut Asm| match high_form {
        0x0f => {
            a.uleb(len_val(rng));
        }
        0x06 => {
            a.u32(len_val(rng) as u32);
        }
        _ => {
            a.uint(addr_val(rng, asz), w);
        }
    };
    // root
    a.uleb(1);
    for (at, f) in &root_attrs {
        match *at {
            0x11 => {
                a.uint(if rng.bool() { 0 } else { addr_val(rng, asz) }, w);
            }
            0x2131 => {
                a.u64(dwo_id.unwrap_or(0));
            }
            0x73 | 0x2133 => emit_ref(&mut a, *f, if rng.chance(1, 10) { rng.interesting() } else { addr_base as u64 }),
            0x74 => emit_ref(&mut a, *f, if rng.chance(1, 10) { rng.interesting() } else { rnglists_base as u64 }),
            0x2132 => emit_ref(
                &mut a,
                *f,
                match rng.below(4) {
                    0 => rng.interesting(),
                    1 => u64::MAX - rng.below(0x40),
                    _ => 0,
                },
            ),
            0x8c => emit_ref(&mut a, *f, if rng.chance(1, 10) { rng.interesting() } else { loclists_base as u64 }),
            _ => {
                let v = list_ref(rng, &rng_offsets, rnglists_base, *f);
                emit_ref(&mut a, *f, v)
            }
        }
    }
    for _ in 0..1 + rng.usize(6) {
        match rng.below(4) {
            0 => {
                a.uleb(2);
                let v = list_ref(rng, &loc_offsets, loclists_base, loc_form);
                emit_ref(&mut a, loc_form, v);
            }
            1 => {
                a.uleb(3);
                emit_low(rng, &mut a);
                emit_high(rng, &mut a);
                let v = list_ref(rng, &rng_offsets, rnglists_base, rng_form);
                emit_ref(&mut a, rng_form, v);
            }
            2 => {
                a.uleb(4);
                let x = small_expr(rng);
                if version >= 4 {
                    a.uleb(x.len() as u64);
                } else {
                    a.u8(x.len() as u8);
                }
                a.bytes(&x);
            }
            _ => {
                a.uleb(5);
                emit_low(rng, &mut a);
                emit_high(rng, &mut a);
            }
        }
    }
    a.u8(0);
    a.end_len(tok, 0);
    let mut m = std::collections::BTreeMap::new();
    m.insert("debug_abbrev".to_string(), ab.v);
    m.insert("debug_info".to_string(), a.v);
    m.insert("debug_addr".to_string(), ad.v);
    m.insert("debug_ranges".to_string(), r.v);
    m.insert("debug_rnglists".to_string(), rl.v);
    m.insert("debug_loc".to_string(), l.v);
    m.insert("debug_loclists".to_string(), ll.v);
    m
}

// ---------------------------------------------------------------------------------------
// CFI: .eh_frame / .debug_frame / .eh_frame_hdr

/// Virtual addresses used by generated CFI so that pc-relative / data-relative
/// encodings are coherent with the `BaseAddresses` the driver sets.
pub const EH_FRAME_ADDR: u64 = 0x20_0000;
pub const EH_FRAME_HDR_ADDR: u64 = 0x1f_0000;
pub const TEXT_ADDR: u64 = 0x10_0000;
pub const GOT_ADDR: u64 = 0x30_0000;

fn emit_encoded(a: &mut Asm, enc: u8, value: u64, field_vaddr: u64, func_base: u64, asz: u8) {
    if enc == 0xff {
        return;
    }
    let base = match enc & 0x70 {
        0x10 => field_vaddr,
        0x20 => TEXT_ADDR,
        0x30 => EH_FRAME_HDR_ADDR, // data base: the driver sets eh_frame_hdr's data base to the hdr address, eh_frame's to GOT
        0x40 => func_base,
        _ => 0,
    };
    let v = value.wrapping_sub(base);
    match enc & 0x0f {
        0x00 => {
            a.uint(v, asz as usize);
        }
        0x01 => {
            a.uleb(v);
        }
        0x02 | 0x0a => {
            a.u16(v as u16);
        }
        0x03 | 0x0b => {
            a.u32(v as u32);
        }
        0x04 | 0x0c => {
            a.u64(v);
        }
        0x09 => {
            a.sleb(v as i64);
        }
        _ => {
            a.u8(v as u8);
        }
    }
}

fn pick_enc(rng: &mut Rng) -> u8 {
    if rng.chance(1, 12) {
        return rng.next() as u8;
    }
    let fmt = *rng.pick(&[0x00u8, 0x01, 0x02, 0x03, 0x04, 0x09, 0x0a, 0x0b, 0x0b, 0x0b, 0x0c]);
    let app = *rng.pick(&[0x00u8, 0x10, 0x10, 0x10, 0x20, 0x30, 0x40, 0x50]);
    let ind = if rng.chance(1, 10) { 0x80 } else { 0 };
    fmt | app | ind
}

fn cfa_program(rng: &mut Rng, a: &mut Asm, n: usize, asz: u8, in_cie: bool) {
    let reg = |rng: &mut Rng| -> u64 {
        match rng.below(10) {
            0 => rng.interesting(),
            1 => 34, // AArch64 RA_SIGN_STATE
            2 => rng.below(300),
            _ => rng.below(32),
        }
    };
    let block = |rng: &mut Rng, a: &mut Asm| {
        let x = small_expr(rng);
        a.uleb(if rng.chance(1, 16) { rng.interesting() } else { x.len() as u64 });
        a.bytes(&x);
    };
    for _ in 0..n {
        match rng.below(34) {
            0 | 1 | 2 => {
                a.u8(0x40 | rng.below(64) as u8);
            }
            3 | 4 => {
                a.u8(0x80 | rng.below(64) as u8).uleb(if rng.chance(1, 8) { rng.interesting() } else { rng.below(32) });
            }
            5 => {
                a.u8(0xc0 | rng.below(64) as u8);
            }
            6 => {
                a.u8(0);
            }
            7 => {
                // set_loc: address-sized (or encoded per 'R' in FDEs, the generator keeps absptr here)
                let v = if rng.chance(1, 4) { rng.interesting() } else { TEXT_ADDR + rng.below(0x1000) };
                a.u8(1).uint(v, asz as usize);
            }
            8 => {
                a.u8(2).u8(rng.next() as u8);
            }
            9 => {
                a.u8(3).u16(rng.next() as u16);
            }
            10 => {
                a.u8(4).u32(if rng.chance(1, 4) { 0xffff_ffff } else { rng.below(0x1000) as u32 });
            }
            11 => {
                let r = reg(rng);
                a.u8(5).uleb(r).uleb(rng.interesting());
            }
            12 => {
                let r = reg(rng);
                a.u8(6).uleb(r);
            }
            13 => {
                let r = reg(rng);
                a.u8(7).uleb(r);
            }
            14 => {
                let r = reg(rng);
                a.u8(8).uleb(r);
            }
            15 => {
                let r = reg(rng);
                let r2 = reg(rng);
                a.u8(9).uleb(r).uleb(r2);
            }
            16 | 17 => {
                a.u8(0x0a);
            }
            18 | 19 => {
                a.u8(0x0b);
            }
            20 => {
                let r = reg(rng);
                a.u8(0x0c).uleb(r).uleb(rng.interesting());
            }
            21 => {
                let r = reg(rng);
                a.u8(0x0d).uleb(r);
            }
            22 => {
                a.u8(0x0e).uleb(rng.interesting());
            }
            23 => {
                a.u8(0x0f);
                block(rng, a);
            }
            24 => {
                let r = reg(rng);
                a.u8(*rng.pick(&[0x10u8, 0x16])).uleb(r);
                block(rng, a);
            }
            25 => {
                let r = reg(rng);
                a.u8(*rng.pick(&[0x11u8, 0x15])).uleb(r).sleb(rng.interesting() as i64);
            }
            26 => {
                let r = reg(rng);
                a.u8(0x12).uleb(r).sleb(rng.interesting() as i64);
            }
            27 => {
                a.u8(0x13).sleb(rng.interesting() as i64);
            }
            28 => {
                let r = reg(rng);
                a.u8(0x14).uleb(r).uleb(rng.interesting());
            }
            29 => {
                a.u8(0x1d).u64(rng.interesting());
            }
            30 => {
                a.u8(0x2d);
            }
            31 => {
                a.u8(0x2e).uleb(rng.interesting());
            }
            32 => {
                let r = reg(rng);
                a.u8(0x2f).uleb(r).uleb(rng.interesting());
            }
            _ => {
                a.u8(if in_cie { 0x0c } else { rng.next() as u8 });
                if in_cie {
                    a.uleb(7).uleb(8);
                }
            }
        }
    }
}

pub struct CfiOut {
    pub eh_frame: Vec<u8>,
    pub debug_frame: Vec<u8>,
    pub eh_frame_hdr: Vec<u8>,
    /// (initial address, length) of generated FDEs, for address probes
    pub fdes: Vec<(u64, u64)>,
}

pub fn cfi(rng: &mut Rng, be: bool, asz: u8) -> CfiOut {
    let mut eh = Asm::new(be);
    let mut df = Asm::new(be);
    let mut fdes: Vec<(u64, u64)> = Vec::new();
    let mut table: Vec<(u64, u64)> = Vec::new(); // (initial address, fde vaddr)
    let w = asz as usize;
    let amask = if asz >= 8 { u64::MAX } else { (1u64 << (8 * asz as u32)) - 1 };
    // ---- .eh_frame
    let ncie = 1 + rng.usize(2);
    let mut next_pc = TEXT_ADDR & amask;
    for _ in 0..ncie {
        let d64 = rng.chance(1, 8);
        let cie_off = eh.len();
        let tok = eh.begin_len(d64);
        eh.u32(0); // CIE id
        let version = *rng.pick(&[1u8, 1, 1, 3, 4, 2]);
        eh.u8(version);
        let aug: &[u8] = *rng.pick(&[&b"zR"[..], b"zR", b"zPLR", b"zLR", b"", b"zRS", b"z", b"zP", b"R", b"eh", b"zRx"]);
        eh.cstr(aug);
        let caf = *rng.pick(&[1u64, 1, 2, 4, 0, 255, 256, 1 << 63]);
        let caf = if rng.chance(1, 3) { caf } else { 1 };
        eh.uleb(caf);
        eh.sleb(*rng.pick(&[-8i64, -4, 1, 0, i64::MIN, 127]));
        if version == 1 {
            eh.u8(rng.below(32) as u8);
        } else {
            eh.uleb(if rng.chance(1, 12) { rng.interesting() } else { rng.below(32) });
        }
        let mut fde_enc = 0u8;
        let mut lsda_enc: Option<u8> = None;
        let has_z = aug.first() == Some(&b'z');
        if has_z {
            let mut data = Asm::new(be);
            let data_vaddr_unknown = EH_FRAME_ADDR + eh.len() as u64 + 1;
            for &ch in &aug[1..] {
                match ch {
                    b'R' => {
                        fde_enc = pick_enc(rng);
                        if rng.chance(2, 3) {
                            fde_enc = *rng.pick(&[0x1bu8, 0x00, 0x03, 0x1b, 0x0b]);
                        }
                        data.u8(fde_enc);
                    }
                    b'L' => {
                        let e = pick_enc(rng);
                        lsda_enc = Some(e);
                        data.u8(e);
                    }
                    b'P' => {
                        let e = pick_enc(rng);
                        data.u8(e);
                        let fv = data_vaddr_unknown + data.len() as u64;
                        emit_encoded(&mut data, e, GOT_ADDR + 8, fv, 0, asz);
                    }
                    _ => {}
                }
            }
            eh.uleb((data.len() as u64).wrapping_add(lie(rng) as u64));
            eh.bytes(&data.v);
        }
        let n = rng.usize(6);
        cfa_program(rng, &mut eh, n, asz, true);
        eh.align(if rng.chance(1, 8) { 1 } else { w.max(4) });
        let d = lie(rng);
        eh.end_len(tok, d);
        // FDEs
        for _ in 0..rng.usize(4) {
            let d64f = d64;
            let fde_off = eh.len();
            let tok = eh.begin_len(d64f);
            let ptr_field = eh.len();
            let cie_ptr = (ptr_field - cie_off) as u64;
            eh.u32(if rng.chance(1, 16) { rng.interesting() as u32 } else { cie_ptr as u32 });
            let len = 1 + rng.below(0x100);
            let start = if rng.chance(1, 8) { rng.interesting() & amask } else { next_pc };
            next_pc = next_pc.wrapping_add(len + rng.below(16)) & amask;
            let fv = EH_FRAME_ADDR + eh.len() as u64;
            emit_encoded(&mut eh, fde_enc, start, fv, 0, asz);
            // address range: same format, no base
            emit_encoded(&mut eh, fde_enc & 0x0f, if rng.chance(1, 10) { rng.interesting() } else { len }, 0, 0, asz);
            if has_z {
                let mut data = Asm::new(be);
                if let Some(e) = lsda_enc {
                    let fv = EH_FRAME_ADDR + eh.len() as u64 + 1;
                    emit_encoded(&mut data, e, GOT_ADDR + 0x100, fv, start, asz);
                }
                eh.uleb((data.len() as u64).wrapping_add(lie(rng) as u64));
                eh.bytes(&data.v);
            }
            let n = rng.usize(10);
            cfa_program(rng, &mut eh, n, asz, false);
            eh.align(if rng.chance(1, 8) { 1 } else { w.max(4) });
            let d = lie(rng);
            eh.end_len(tok, d);
            fdes.push((start, len));
            table.push((start, EH_FRAME_ADDR + fde_off as u64));
        }
    }
    if !rng.chance(1, 6) {
        eh.u32(0); // terminator
    }
    // ---- .debug_frame
    for _ in 0..1 + rng.usize(2) {
        let d64 = rng.chance(1, 6);
        let cie_off = df.len();
        let tok = df.begin_len(d64);
        df.word(if d64 { u64::MAX } else { 0xffff_ffff }, d64);
        let version = *rng.pick(&[1u8, 3, 4, 4, 5]);
        df.u8(version);
        df.cstr(if rng.chance(1, 10) { b"zR" } else { b"" });
        if version == 4 {
            df.u8(if rng.chance(1, 12) { rng.next() as u8 } else { asz });
            df.u8(if rng.chance(1, 16) { 4 } else { 0 });
        }
        df.uleb(*rng.pick(&[1u64, 1, 4, 0, 1 << 62]));
        df.sleb(*rng.pick(&[-8i64, -4, 1, 0]));
        if version == 1 {
            df.u8(rng.below(32) as u8);
        } else {
            df.uleb(rng.below(32));
        }
        let n = rng.usize(6);
        cfa_program(rng, &mut df, n, asz, true);
        df.align(w.max(4));
        let d = lie(rng);
        df.end_len(tok, d);
        if rng.chance(1, 10) {
            df.u32(0); // zero-length entry (the NASM hack path)
        }
        for _ in 0..rng.usize(4) {
            let tok = df.begin_len(d64);
            df.word(if rng.chance(1, 16) { rng.interesting() } else { cie_off as u64 }, d64);
            let len = 1 + rng.below(0x100);
            let start = if rng.chance(1, 8) { rng.interesting() & amask } else { next_pc };
            next_pc = next_pc.wrapping_add(len + rng.below(16)) & amask;
            df.uint(start, w).uint(if rng.chance(1, 10) { rng.interesting() } else { len }, w);
            let n = rng.usize(10);
            cfa_program(rng, &mut df, n, asz, false);
            df.align(w.max(4));
            let d = lie(rng);
            df.end_len(tok, d);
            fdes.push((start, len));
        }
    }
    // ---- .eh_frame_hdr
    let mut h = Asm::new(be);
    h.u8(if rng.chance(1, 16) { 2 } else { 1 });
    let ptr_enc = if rng.chance(1, 6) { pick_enc(rng) } else { 0x1b };
    let cnt_enc = if rng.chance(1, 6) { pick_enc(rng) } else { 0x03 };
    let tab_enc = if rng.chance(1, 4) { pick_enc(rng) } else { *rng.pick(&[0x3bu8, 0x3b, 0x3c, 0x3a, 0x33, 0x34, 0x32]) };
    h.u8(ptr_enc).u8(cnt_enc).u8(tab_enc);
    let fv = EH_FRAME_HDR_ADDR + h.len() as u64;
    emit_encoded(&mut h, ptr_enc, if rng.chance(1, 8) { rng.interesting() } else { EH_FRAME_ADDR }, fv, 0, asz);
    table.sort();
    let count = if rng.chance(1, 8) { rng.interesting() } else { (table.len() as u64).wrapping_add(lie(rng) as u64) };
    emit_encoded(&mut h, cnt_enc, count, 0, 0, asz);
    for (pc, fde) in &table {
        let fv = EH_FRAME_HDR_ADDR + h.len() as u64;
        emit_encoded(&mut h, tab_enc, *pc, fv, 0, asz);
        let fv = EH_FRAME_HDR_ADDR + h.len() as u64;
        emit_encoded(&mut h, tab_enc, if rng.chance(1, 12) { rng.interesting() } else { *fde }, fv, 0, asz);
    }
    CfiOut { eh_frame: eh.v, debug_frame: df.v, eh_frame_hdr: h.v, fdes }
}

// ---------------------------------------------------------------------------------------
// .debug_names and .debug_cu_index / .debug_tu_index

pub fn djb_hash(s: &[u8]) -> u32 {
    let mut h: u32 = 5381;
    for &b in s {
        h = h.wrapping_mul(33).wrapping_add(b as u32);
    }
    h
}

/// Returns (.debug_names, .debug_str, hashes used).
pub fn names(rng: &mut Rng, be: bool) -> (Vec<u8>, Vec<u8>, Vec<u32>) {
    let mut a = Asm::new(be);
    let mut strs = Asm::new(be);
    let mut all_hashes = Vec::new();
    for _ in 0..1 + rng.usize(2) {
        let d64 = rng.chance(1, 5);
        let w = if d64 { 8 } else { 4 };
        let tok = a.begin_len(d64);
        a.u16(if rng.chance(1, 24) { 4 } else { 5 }).u16(0);
        let ncu = rng.usize(3) as u32;
        let nltu = rng.usize(2) as u32;
        let nftu = rng.usize(2) as u32;
        let nnames = rng.usize(6) as u32;
        let nbuckets = if rng.chance(1, 4) { 0 } else { 1 + rng.usize(4) as u32 };
        // names, sorted by bucket as the format requires
        let mut nm: Vec<(Vec<u8>, u32)> = (0..nnames)
            .map(|_| {
                let n = name(rng);
                let h = if rng.chance(1, 6) { 7 } else { djb_hash(&n) }; // colliding hashes sometimes
                (n, h)
            })
            .collect();
        if nbuckets > 0 {
            nm.sort_by_key(|x| x.1 % nbuckets);
        }
        // abbreviations
        let nabbrev = 1 + rng.usize(3);
        let mut abbrevs: Vec<(u64, Vec<(u64, u64)>)> = Vec::new();
        let mut ab = Asm::new(be);
        for i in 0..nabbrev {
            let code = if rng.chance(1, 10) { rng.interesting().max(1) } else { i as u64 + 1 };
            let mut attrs = Vec::new();
            for _ in 0..rng.usize(4) {
                let idx = if rng.chance(1, 10) { rng.below(0x4000) } else { *rng.pick(&[1u64, 2, 3, 4, 5]) };
                let form = if rng.chance(1, 12) { rng.below(0x30) } else { *rng.pick(&[0x0bu64, 0x05, 0x06, 0x07, 0x0f, 0x11, 0x12, 0x13, 0x14, 0x15, 0x19, 0x0c]) };
                attrs.push((idx, form));
            }
            ab.uleb(code).uleb(*rng.pick(&[0x2eu64, 0x34, 0x13, 0x24, 0]));
            for (i, f) in &attrs {
                ab.uleb(*i).uleb(*f);
            }
            ab.u8(0).u8(0);
            abbrevs.push((code, attrs));
        }
        if !rng.chance(1, 10) {
            ab.u8(0);
        }
        let abbrev_size = (ab.len() as u32).wrapping_add(lie(rng) as u32);
        let counts = [ncu, nltu, nftu, nbuckets, nnames, abbrev_size];
        for (k, c) in counts.iter().enumerate() {
            a.u32(if rng.chance(1, 40) { rng.interesting() as u32 } else { *c });
            let _ = k;
        }
        let aug: &[u8] = if rng.chance(1, 3) { b"LLVM0700" } else if rng.chance(1, 8) { b"abc" } else { b"" };
        a.u32(aug.len() as u32).bytes(aug);
        a.align(4);
        for _ in 0..ncu + nltu {
            a.word(rng.below(0x1000), d64);
        }
        for _ in 0..nftu {
            a.u64(rng.next());
        }
        // buckets: 1-based index of the first name in each bucket, 0 if empty
        for b in 0..nbuckets {
            let first = nm.iter().position(|x| x.1 % nbuckets == b);
            a.u32(match first {
                Some(i) if !rng.chance(1, 16) => i as u32 + 1,
                Some(_) => rng.interesting() as u32,
                None => 0,
            });
        }
        if nbuckets > 0 {
            for (_, h) in &nm {
                a.u32(*h);
                all_hashes.push(*h);
            }
        }
        for (n, _) in &nm {
            a.word(strs.len() as u64, d64);
            strs.cstr(n);
        }
        // entry pool
        let mut pool = Asm::new(be);
        let mut entry_offs = Vec::new();
        for _ in 0..nnames {
            entry_offs.push(pool.len() as u64);
            for _ in 0..1 + rng.usize(2) {
                let (code, attrs) = rng.pick(&abbrevs).clone();
                pool.uleb(if rng.chance(1, 24) { rng.interesting() } else { code });
                for (_, f) in &attrs {
                    match *f {
                        0x0b | 0x0c | 0x11 => {
                            pool.u8(rng.below(4) as u8);
                        }
                        0x05 | 0x12 => {
                            pool.u16(rng.below(4) as u16);
                        }
                        0x06 | 0x13 => {
                            pool.u32(if rng.chance(1, 8) { rng.interesting() as u32 } else { rng.below(64) as u32 });
                        }
                        0x07 | 0x14 => {
                            pool.u64(rng.interesting());
                        }
                        0x0f | 0x15 => {
                            pool.uleb(rng.interesting());
                        }
                        _ => {}
                    }
                }
            }
            if !rng.chance(1, 12) {
                pool.u8(0);
            }
        }
        for o in &entry_offs {
            a.word(if rng.chance(1, 16) { rng.interesting() } else { *o }, d64);
        }
        a.bytes(&ab.v);
        a.bytes(&pool.v);
        let _ = w;
        let d = lie(rng);
        a.end_len(tok, d);
    }
    (a.v, strs.v, all_hashes)
}

/// .debug_cu_index / .debug_tu_index (version 2 and 5). Returns (bytes, ids present).
pub fn unit_index(rng: &mut Rng, be: bool, max_contrib: u32) -> (Vec<u8>, Vec<u64>) {
    let mut a = Asm::new(be);
    let v5 = rng.bool();
    if v5 {
        a.u16(if rng.chance(1, 16) { 4 } else { 5 }).u16(0);
    } else {
        a.u32(if rng.chance(1, 16) { 3 } else { 2 });
    }
    let nsec = 1 + rng.usize(6) as u32;
    let nunits = rng.usize(5) as u32;
    // load factors up to full-1
    let mut slots = 1u32;
    while slots <= nunits {
        slots *= 2;
    }
    if rng.chance(1, 3) {
        slots *= 2;
    }
    if nunits == 0 && rng.bool() {
        slots = 0;
    }
    a.u32(if rng.chance(1, 24) { rng.interesting() as u32 } else { nsec });
    a.u32(if rng.chance(1, 24) { rng.interesting() as u32 } else { nunits });
    a.u32(if rng.chance(1, 24) { rng.interesting() as u32 } else { slots });
    let mut ids = vec![0u64; slots as usize];
    let mut rows = vec![0u32; slots as usize];
    let mut present = Vec::new();
    for u in 0..nunits {
        if slots == 0 {
            break;
        }
        let id = if rng.chance(1, 3) { (rng.below(4) << 32) | 5 } else { rng.next() | 1 }; // colliding primaries
        let mask = (slots - 1) as u64;
        let mut h = id & mask;
        let h2 = ((id >> 32) & mask) | 1;
        let mut tries = 0;
        while ids[h as usize] != 0 && tries < slots {
            h = (h + h2) & mask;
            tries += 1;
        }
        if ids[h as usize] == 0 {
            ids[h as usize] = id;
            rows[h as usize] = u + 1;
            present.push(id);
        }
    }
    for i in &ids {
        a.u64(*i);
    }
    for r in &rows {
        a.u32(if rng.chance(1, 24) { rng.interesting() as u32 } else { *r });
    }
    let pool: &[u32] = if v5 { &[1, 3, 4, 5, 6, 7, 8] } else { &[1, 2, 3, 4, 5, 6, 7, 8] };
    for _ in 0..nsec {
        a.u32(if rng.chance(1, 16) { rng.below(12) as u32 } else { *rng.pick(pool) });
    }
    for pass in 0..2 {
        for _ in 0..nunits * nsec {
            let v = if rng.chance(1, 12) { rng.interesting() as u32 } else { rng.below(max_contrib as u64 + 1) as u32 };
            a.u32(if pass == 0 { v } else { v / 2 });
        }
    }
    if rng.chance(1, 8) {
        let k = rng.usize(a.v.len() + 1);
        a.v.truncate(k);
    }
    (a.v, present)
}

/// A pool of FDEs designed for the reuse engine: CIEs with 0 / 1 / many initial rules,
/// a CIE whose initial instructions fail, remember/restore nests, state-stack underflow,
/// many registers (rule-count overflow on small storages), invalid opcodes mid-FDE.
/// Absolute pointers, no augmentation, address size 8, so every FDE parses.
pub fn cfi_pool(rng: &mut Rng, be: bool) -> Vec<u8> {
    let mut a = Asm::new(be);
    let cie_kinds = 6;
    let mut pc = TEXT_ADDR;
    for ck in 0..cie_kinds {
        let cie_off = a.len();
        let tok = a.begin_len(false);
        a.u32(0).u8(1).cstr(b"");
        a.uleb(*rng.pick(&[1u64, 1, 2, 4])).sleb(*rng.pick(&[-8i64, -4, 1])).u8(16);
        match ck {
            0 => {}
            1 => {
                a.u8(0x0c).uleb(7).uleb(8); // def_cfa, no register rule
            }
            2 => {
                a.u8(0x0c).uleb(7).uleb(8).u8(0x80 | 16).uleb(1); // one rule
            }
            3 => {
                a.u8(0x0c).uleb(7).uleb(8);
                for r in 0..(2 + rng.below(4)) {
                    a.u8(0x80 | (r as u8 + 3)).uleb(r + 1); // many rules
                }
            }
            4 => {
                a.u8(0x0c).uleb(7).uleb(8).u8(0xc0 | 3); // restore inside a CIE: invalid context
            }
            _ => {
                a.u8(0x0c).uleb(7).uleb(8).u8(0x0a).u8(0x80 | 6).uleb(2); // remember_state left open
            }
        }
        a.align(8);
        a.end_len(tok, 0);
        for fk in 0..2 + rng.usize(2) {
            let tok = a.begin_len(false);
            let ptr_field = a.len();
            a.u32((ptr_field - cie_off) as u32);
            let len = 0x40 + rng.below(0x40);
            a.u64(pc).u64(len);
            pc += len + 0x10;
            let kind = (ck * 3 + fk + rng.usize(7)) % 7;
            match kind {
                0 => {
                    a.u8(0x41).u8(0x0e).uleb(16).u8(0x42).u8(0x80 | 6).uleb(2);
                }
                1 => {
                    // remember/restore nest
                    let d = 1 + rng.usize(5);
                    for i in 0..d {
                        a.u8(0x0a).u8(0x41).u8(0x80 | (i as u8 + 1)).uleb(i as u64 + 1);
                    }
                    for _ in 0..d {
                        a.u8(0x0b).u8(0x41);
                    }
                }
                2 => {
                    a.u8(0x41).u8(0x0b).u8(0x41).u8(0x0e).uleb(8); // restore_state on empty stack
                }
                3 => {
                    for r in 0..(1 + rng.below(7)) {
                        a.u8(0x80 | (20 + r as u8)).uleb(r + 1).u8(0x41);
                    }
                }
                4 => {
                    a.u8(0x41).u8(0x80 | 3).uleb(1).u8(0x3f).u8(0x41).u8(0x0e).uleb(8); // invalid opcode mid-FDE
                }
                5 => {
                    a.u8(0x41).u8(0xc0 | 16).u8(0x41).u8(0xc0 | 3).u8(0x42).u8(0x07).uleb(3); // restores
                }
                _ => {
                    cfa_program(rng, &mut a, 6, 8, false);
                }
            }
            a.align(8);
            a.end_len(tok, 0);
        }
    }
    a.u32(0);
    a.v
}
