//! Workload generators: what "traffic" the simulated system sees.
//! Everything is a pure function of the Rng handed in.

use crate::rng::Rng;
use std::collections::BTreeMap;
use std::sync::OnceLock;

pub mod asm;
pub mod expr;
pub mod writer;

pub const FIXTURE_DIR: &str = "/repo/fixtures/self";

pub fn fixture(name: &str) -> &'static [u8] {
    static FX: OnceLock<BTreeMap<String, Vec<u8>>> = OnceLock::new();
    let m = FX.get_or_init(|| {
        let mut m = BTreeMap::new();
        for n in [
            "debug_abbrev",
            "debug_aranges",
            "debug_info",
            "debug_line",
            "debug_loc",
            "debug_pubnames",
            "debug_pubtypes",
            "debug_ranges",
            "debug_str",
            "eh_frame",
            "eh_frame_hdr",
        ] {
            let p = format!("{}/{}", FIXTURE_DIR, n);
            match std::fs::read(&p) {
                Ok(b) => {
                    m.insert(n.to_string(), b);
                }
                Err(e) => {
                    eprintln!("HARNESS: cannot read fixture {}: {}", p, e);
                    std::process::exit(2);
                }
            }
        }
        m
    });
    m.get(name).map(|v| &v[..]).unwrap_or(&[])
}

/// Offsets of the length-prefixed records (32-bit little-endian initial length) of a
/// section: units, arange sets, line programs, pub sets, CFI entries.
pub fn record_bounds(sec: &'static [u8], name: &str) -> &'static [(usize, usize)] {
    static B: OnceLock<BTreeMap<String, Vec<(usize, usize)>>> = OnceLock::new();
    let m = B.get_or_init(|| {
        let mut m = BTreeMap::new();
        for n in [
            "debug_aranges",
            "debug_info",
            "debug_line",
            "debug_pubnames",
            "debug_pubtypes",
            "eh_frame",
        ] {
            let s = fixture(n);
            let mut v = Vec::new();
            let mut o = 0usize;
            while o + 4 <= s.len() {
                let len = u32::from_le_bytes([s[o], s[o + 1], s[o + 2], s[o + 3]]) as usize;
                let end = o + 4 + len;
                if end > s.len() {
                    break;
                }
                v.push((o, end));
                if len == 0 && n == "eh_frame" {
                    // terminator
                }
                o = end;
            }
            m.insert(n.to_string(), v);
        }
        m
    });
    let _ = sec;
    m.get(name).map(|v| &v[..]).unwrap_or(&[])
}

/// A few consecutive records of a fixture section.
pub fn fixture_slice(rng: &mut Rng, name: &str, max_records: usize, max_bytes: usize) -> Vec<u8> {
    let s = fixture(name);
    let b = record_bounds(s, name);
    if b.is_empty() {
        return s[..s.len().min(max_bytes)].to_vec();
    }
    let i = rng.usize(b.len());
    let k = 1 + rng.usize(max_records);
    let mut out = Vec::new();
    for &(st, en) in b.iter().skip(i).take(k) {
        if !out.is_empty() && out.len() + (en - st) > max_bytes {
            break;
        }
        out.extend_from_slice(&s[st..en]);
    }
    out
}

pub fn noise(rng: &mut Rng, max: usize) -> Vec<u8> {
    let n = match rng.below(4) {
        0 => rng.usize(4),
        1 => rng.usize(17),
        2 => rng.usize(65),
        _ => rng.usize(max + 1),
    };
    let mut v = rng.bytes(n);
    // bias toward small values so length fields are plausible
    if rng.bool() {
        for b in v.iter_mut() {
            if rng.chance(1, 2) {
                *b &= 0x0f;
            }
        }
    }
    v
}

/// Every byte string of length <= 2 plus sampled length 3, indexed by i.
pub fn short_string(i: u64) -> Vec<u8> {
    if i == 0 {
        vec![]
    } else if i <= 256 {
        vec![(i - 1) as u8]
    } else if i <= 256 + 65536 {
        let x = i - 257;
        vec![(x >> 8) as u8, x as u8]
    } else {
        let x = i - 257 - 65536;
        vec![(x >> 16) as u8, (x >> 8) as u8, x as u8]
    }
}

pub const N_SHORT_EXHAUSTIVE: u64 = 1 + 256 + 65536;

const LEB_EXTREMES: &[&[u8]] = &[
    &[0xff, 0xff, 0xff, 0xff, 0xff, 0xff, 0xff, 0xff, 0xff, 0x01],
    &[0x80, 0x80, 0x80, 0x80, 0x80, 0x80, 0x80, 0x80, 0x80, 0x7f],
    &[0x80, 0x80, 0x80, 0x80, 0x80, 0x80, 0x80, 0x80, 0x80, 0x01],
    &[0x80, 0x80, 0x80, 0x80, 0x80, 0x80, 0x80, 0x80, 0x20],
    &[0xff, 0xff, 0xff, 0xff, 0x0f],
    &[0x80, 0x80, 0x80, 0x80, 0x10],
    &[0xff, 0xff, 0xff, 0xff, 0xff, 0xff, 0xff, 0xff, 0xff, 0xff, 0xff, 0x01],
    &[0x80, 0x00],
    &[0xff, 0x7f],
    &[0x80, 0x80, 0x80, 0x80, 0x80, 0x80, 0x80, 0x80, 0x80, 0x00],
];

const FIELD_EXTREMES: &[u64] = &[
    0,
    1,
    2,
    3,
    4,
    5,
    8,
    0x7f,
    0x80,
    0xff,
    0xfffe,
    0xffff,
    0x7fff_ffff,
    0x8000_0000,
    0xffff_ffef,
    0xffff_fff0,
    0xffff_fffe,
    0xffff_ffff,
    1 << 61,
    1 << 63,
    u64::MAX,
];

/// Storage-corruption operators ("flipped stored byte / torn section"), applied before
/// the run. Returns a short description for the case note.
pub fn corrupt(rng: &mut Rng, v: &mut Vec<u8>, other: &[u8]) -> &'static str {
    if v.is_empty() {
        *v = noise(rng, 16);
        return "fill";
    }
    let n = v.len();
    // bias positions toward the header (first 64 bytes), where structure lives
    let pos = |rng: &mut Rng| -> usize {
        if rng.chance(1, 2) {
            rng.usize(n.min(64))
        } else {
            rng.usize(n)
        }
    };
    match rng.below(12) {
        0 => {
            let p = pos(rng);
            v[p] ^= 1 << rng.below(8);
            "bitflip"
        }
        1 => {
            let p = pos(rng);
            v[p] = *rng.pick(&[0x00, 0x01, 0x7f, 0x80, 0xfe, 0xff]);
            "boundary_byte"
        }
        2 => {
            let p = pos(rng);
            let e = *rng.pick(LEB_EXTREMES);
            let end = (p + e.len()).min(n);
            if rng.bool() {
                v.splice(p..end, e.iter().copied());
            } else {
                v.splice(p..p, e.iter().copied());
            }
            "leb_extreme"
        }
        3 | 4 => {
            // overwrite a 1/2/4/8-byte field with an extreme or a near-length value
            let p = pos(rng);
            let w = *rng.pick(&[1usize, 2, 4, 4, 8]);
            let val = if rng.chance(1, 3) {
                let d = rng.below(5) as i64 - 2;
                (n as i64 - p as i64 + d) as u64
            } else {
                *rng.pick(FIELD_EXTREMES)
            };
            let be = rng.chance(1, 8);
            for i in 0..w {
                if p + i < n {
                    let sh = if be { (w - 1 - i) * 8 } else { i * 8 };
                    v[p + i] = (val >> sh) as u8;
                }
            }
            "field_extreme"
        }
        5 => {
            let k = rng.usize(n);
            v.truncate(k);
            "truncate"
        }
        6 => {
            if !other.is_empty() {
                let a = rng.usize(other.len());
                let l = rng.usize((other.len() - a).min(64) + 1);
                let p = pos(rng);
                v.splice(p..p, other[a..a + l].iter().copied());
            }
            "splice"
        }
        7 => {
            let p = pos(rng);
            let l = 1 + rng.usize(16);
            let end = (p + l).min(n);
            v.drain(p..end);
            "delete"
        }
        8 => {
            let p = pos(rng);
            let s = rng.below(9);
            let z = vec![0u8; 1 << s];
            v.splice(p..p, z);
            "zero_run"
        }
        9 => {
            let p = pos(rng);
            let l = 1 + rng.usize(8);
            for i in p..(p + l).min(n) {
                v[i] = rng.next() as u8;
            }
            "random_bytes"
        }
        10 => {
            // duplicate a chunk
            let a = rng.usize(n);
            let l = rng.usize((n - a).min(64) + 1);
            let chunk = v[a..a + l].to_vec();
            let p = pos(rng);
            v.splice(p..p, chunk);
            "dup_chunk"
        }
        _ => {
            let p = pos(rng);
            let l = 1 + rng.usize(8);
            for i in p..(p + l).min(n) {
                v[i] = 0xff;
            }
            "ones_run"
        }
    }
}

/// Apply 0..=3 corruption operators.
pub fn corrupt_some(rng: &mut Rng, v: &mut Vec<u8>, other: &[u8], note: &mut String) {
    let k = match rng.below(8) {
        0..=2 => 0,
        3..=5 => 1,
        6 => 2,
        _ => 3,
    };
    for _ in 0..k {
        let d = corrupt(rng, v, other);
        note.push('+');
        note.push_str(d);
    }
}
