//! Reference model of the DWARF expression stack machine (C07): a direct interpreter
//! over the generator's AST with direct access to the World (no suspension). It is
//! spec-level: generic values are reduced modulo 2^(8*address_size) when produced, typed
//! integers live in i128 and are wrapped into their type. It produces the same canonical
//! trace lines as the driver of the real evaluator.

use crate::wl::expr::{layout, offsets, EncParams, Ins, Layout};
use crate::world::World;
use gimli::{Value, ValueType};

#[derive(Clone, Copy, Debug, PartialEq)]
pub enum MV {
    /// generic, always masked
    G(u64),
    /// typed integer, value within the range of the type
    I(ValueType, i128),
    F32(f32),
    F64(f64),
}

pub fn bits_of(ty: ValueType, addr_size: u8) -> u32 {
    match ty {
        ValueType::Generic => 8 * addr_size as u32,
        ValueType::I8 | ValueType::U8 => 8,
        ValueType::I16 | ValueType::U16 => 16,
        ValueType::I32 | ValueType::U32 | ValueType::F32 => 32,
        ValueType::I64 | ValueType::U64 | ValueType::F64 => 64,
    }
}

pub fn is_signed(ty: ValueType) -> bool {
    matches!(ty, ValueType::I8 | ValueType::I16 | ValueType::I32 | ValueType::I64)
}

/// Wrap an integer into the range of an integer type.
pub fn wrap(ty: ValueType, v: i128) -> MV {
    let bits = bits_of(ty, 8);
    let m = (1i128 << bits) - 1;
    let u = v & m;
    if is_signed(ty) && (u >> (bits - 1)) & 1 == 1 {
        MV::I(ty, u - (1i128 << bits))
    } else {
        MV::I(ty, u)
    }
}

pub fn from_gimli(v: Value, mask: u64) -> MV {
    match v {
        Value::Generic(x) => MV::G(x & mask),
        Value::I8(x) => MV::I(ValueType::I8, x as i128),
        Value::U8(x) => MV::I(ValueType::U8, x as i128),
        Value::I16(x) => MV::I(ValueType::I16, x as i128),
        Value::U16(x) => MV::I(ValueType::U16, x as i128),
        Value::I32(x) => MV::I(ValueType::I32, x as i128),
        Value::U32(x) => MV::I(ValueType::U32, x as i128),
        Value::I64(x) => MV::I(ValueType::I64, x as i128),
        Value::U64(x) => MV::I(ValueType::U64, x as i128),
        Value::F32(x) => MV::F32(x),
        Value::F64(x) => MV::F64(x),
    }
}

/// Canonical text of a value: generic values modulo the address mask, floats by bits.
pub fn fmt_mv(v: &MV) -> String {
    match v {
        MV::G(x) => format!("G:{:#x}", x),
        MV::I(t, x) => format!("{:?}:{}", t, x),
        MV::F32(x) => format!("F32:{:#x}", x.to_bits()),
        MV::F64(x) => format!("F64:{:#x}", x.to_bits()),
    }
}

pub fn fmt_value(v: &Value, mask: u64) -> String {
    fmt_mv(&from_gimli(*v, mask))
}

type E = Vec<&'static str>;
type R<T> = Result<T, E>;

fn e(k: &'static str) -> E {
    vec![k]
}

pub struct Model<'a> {
    pub world: &'a World,
    pub p: EncParams,
    pub mask: u64,
    pub progs: &'a [Vec<Ins>],
    pub offs: Vec<Vec<usize>>,
    pub stack: Vec<MV>,
    pub pieces: Vec<String>,
    pub trace: Vec<String>,
    pub iterations: u64,
    pub max_iterations: Option<u64>,
    pub object_address: Option<u64>,
    pub stack_cap: usize,
    pub call_cap: usize,
    pub piece_cap: usize,
    /// set when the program did something the AST-level model cannot follow
    pub unmodelled: Option<&'static str>,
}

#[derive(Debug, Clone, PartialEq)]
pub enum ModelEnd {
    Complete,
    Error(Vec<&'static str>),
    Unmodelled(&'static str),
}

fn ty_of(v: &MV) -> ValueType {
    match v {
        MV::G(_) => ValueType::Generic,
        MV::I(t, _) => *t,
        MV::F32(_) => ValueType::F32,
        MV::F64(_) => ValueType::F64,
    }
}

impl<'a> Model<'a> {
    pub fn new(world: &'a World, p: EncParams, progs: &'a [Vec<Ins>]) -> Model<'a> {
        let mask = world.addr_mask();
        let offs = progs.iter().map(|pr| offsets(pr, &p)).collect();
        Model {
            world,
            p,
            mask,
            progs,
            offs,
            stack: Vec::new(),
            pieces: Vec::new(),
            trace: Vec::new(),
            iterations: 0,
            max_iterations: None,
            object_address: None,
            stack_cap: usize::MAX,
            call_cap: usize::MAX,
            piece_cap: usize::MAX,
            unmodelled: None,
        }
    }

    fn sext(&self, v: u64) -> i128 {
        let bits = 8 * self.p.addr_size as u32;
        let v = v & self.mask;
        if bits < 64 && (v >> (bits - 1)) & 1 == 1 {
            v as i128 - (1i128 << bits)
        } else if bits == 64 {
            v as i64 as i128
        } else {
            v as i128
        }
    }

    fn g(&self, v: i128) -> MV {
        MV::G((v as u64) & self.mask)
    }

    fn push(&mut self, v: MV) -> R<()> {
        if self.stack.len() >= self.stack_cap {
            return Err(e("StackFull"));
        }
        self.stack.push(v);
        Ok(())
    }

    fn pop(&mut self) -> R<MV> {
        self.stack.pop().ok_or_else(|| e("NotEnoughStackItems"))
    }

    /// 64-bit two's complement image of an integral value (what an address / index is).
    fn to_u64(&self, v: &MV) -> R<u64> {
        match v {
            MV::G(x) => Ok(*x),
            MV::I(_, x) => Ok(*x as u64),
            _ => Err(e("IntegralTypeRequired")),
        }
    }

    fn from_u64(&self, ty: ValueType, v: u64) -> MV {
        match ty {
            ValueType::Generic => MV::G(v & self.mask),
            ValueType::F32 => MV::F32(v as f32),
            ValueType::F64 => MV::F64(v as f64),
            t => wrap(t, v as i128),
        }
    }

    fn answer(&self, v: Value) -> MV {
        from_gimli(v, self.mask)
    }

    fn same_type(a: &MV, b: &MV) -> bool {
        ty_of(a) == ty_of(b)
    }

    fn arith(&self, op: u8, a: MV, b: MV) -> R<MV> {
        // a = lhs (second from top), b = rhs (top)
        let mismatch = !Self::same_type(&a, &b);
        match op {
            0x22 | 0x1c | 0x1e => {
                if mismatch {
                    return Err(e("TypeMismatch"));
                }
                Ok(match (a, b) {
                    (MV::G(x), MV::G(y)) => {
                        let (x, y) = (x as i128, y as i128);
                        self.g(match op {
                            0x22 => x.wrapping_add(y),
                            0x1c => x.wrapping_sub(y),
                            _ => x.wrapping_mul(y),
                        })
                    }
                    (MV::I(t, x), MV::I(_, y)) => wrap(
                        t,
                        match op {
                            0x22 => x.wrapping_add(y),
                            0x1c => x.wrapping_sub(y),
                            _ => x.wrapping_mul(y),
                        },
                    ),
                    (MV::F32(x), MV::F32(y)) => MV::F32(match op {
                        0x22 => x + y,
                        0x1c => x - y,
                        _ => x * y,
                    }),
                    (MV::F64(x), MV::F64(y)) => MV::F64(match op {
                        0x22 => x + y,
                        0x1c => x - y,
                        _ => x * y,
                    }),
                    _ => unreachable!(),
                })
            }
            0x1b => {
                // div: signed for generic
                let zero = match b {
                    MV::G(y) => y == 0,
                    MV::I(_, y) => y == 0,
                    _ => false,
                };
                let mut errs = Vec::new();
                if zero {
                    errs.push("DivisionByZero");
                }
                if mismatch {
                    errs.push("TypeMismatch");
                }
                if !errs.is_empty() {
                    return Err(errs);
                }
                Ok(match (a, b) {
                    (MV::G(x), MV::G(y)) => self.g(self.sext(x).wrapping_div(self.sext(y))),
                    (MV::I(t, x), MV::I(_, y)) => wrap(t, x.wrapping_div(y)),
                    (MV::F32(x), MV::F32(y)) => MV::F32(x / y),
                    (MV::F64(x), MV::F64(y)) => MV::F64(x / y),
                    _ => unreachable!(),
                })
            }
            0x1d => {
                // mod: unsigned for generic
                let zero = match b {
                    MV::G(y) => y == 0,
                    MV::I(_, y) => y == 0,
                    _ => false,
                };
                let mut errs = Vec::new();
                if zero {
                    errs.push("DivisionByZero");
                }
                if mismatch {
                    errs.push("TypeMismatch");
                }
                if matches!(a, MV::F32(_) | MV::F64(_)) || matches!(b, MV::F32(_) | MV::F64(_)) {
                    errs.push("IntegralTypeRequired");
                }
                if !errs.is_empty() {
                    return Err(errs);
                }
                Ok(match (a, b) {
                    (MV::G(x), MV::G(y)) => MV::G(x % y),
                    (MV::I(t, x), MV::I(_, y)) => wrap(t, x.wrapping_rem(y)),
                    _ => unreachable!(),
                })
            }
            0x1a | 0x21 | 0x27 => {
                let mut errs = Vec::new();
                if mismatch {
                    errs.push("TypeMismatch");
                }
                if matches!(a, MV::F32(_) | MV::F64(_)) || matches!(b, MV::F32(_) | MV::F64(_)) {
                    errs.push("IntegralTypeRequired");
                }
                if !errs.is_empty() {
                    return Err(errs);
                }
                let f = |x: i128, y: i128| match op {
                    0x1a => x & y,
                    0x21 => x | y,
                    _ => x ^ y,
                };
                Ok(match (a, b) {
                    (MV::G(x), MV::G(y)) => self.g(f(x as i128, y as i128)),
                    (MV::I(t, x), MV::I(_, y)) => wrap(t, f(x, y)),
                    _ => unreachable!(),
                })
            }
            0x24 | 0x25 | 0x26 => {
                // shifts: count from rhs
                let mut errs = Vec::new();
                let count: Option<u128> = match b {
                    MV::G(y) => Some(y as u128),
                    MV::I(_, y) if y >= 0 => Some(y as u128),
                    _ => {
                        errs.push("InvalidShiftExpression");
                        None
                    }
                };
                match a {
                    MV::F32(_) | MV::F64(_) => errs.push("IntegralTypeRequired"),
                    MV::I(t, _) => {
                        if (op == 0x25 && is_signed(t)) || (op == 0x26 && !is_signed(t)) {
                            errs.push("UnsupportedTypeOperation");
                        }
                    }
                    MV::G(_) => {}
                }
                if !errs.is_empty() {
                    return Err(errs);
                }
                let count = count.unwrap();
                let width = bits_of(ty_of(&a), self.p.addr_size) as u128;
                Ok(match a {
                    MV::G(x) => match op {
                        0x24 => {
                            if count >= width {
                                MV::G(0)
                            } else {
                                self.g(((x as u128) << count) as i128)
                            }
                        }
                        0x25 => {
                            if count >= width {
                                MV::G(0)
                            } else {
                                MV::G(x >> count)
                            }
                        }
                        _ => {
                            let s = self.sext(x);
                            if count >= width {
                                self.g(if s < 0 { -1 } else { 0 })
                            } else {
                                self.g(s >> count)
                            }
                        }
                    },
                    MV::I(t, x) => match op {
                        0x24 => {
                            if count >= width {
                                wrap(t, 0)
                            } else {
                                wrap(t, x.wrapping_shl(count as u32))
                            }
                        }
                        0x25 => {
                            if count >= width {
                                wrap(t, 0)
                            } else {
                                wrap(t, x >> count)
                            }
                        }
                        _ => {
                            if count >= width {
                                wrap(t, if x < 0 { -1 } else { 0 })
                            } else {
                                wrap(t, x >> count)
                            }
                        }
                    },
                    _ => unreachable!(),
                })
            }
            0x29..=0x2e => {
                if mismatch {
                    return Err(e("TypeMismatch"));
                }
                let r = match (a, b) {
                    (MV::G(x), MV::G(y)) => cmp(op, self.sext(x).partial_cmp(&self.sext(y))),
                    (MV::I(_, x), MV::I(_, y)) => cmp(op, x.partial_cmp(&y)),
                    (MV::F32(x), MV::F32(y)) => cmp(op, x.partial_cmp(&y)),
                    (MV::F64(x), MV::F64(y)) => cmp(op, x.partial_cmp(&y)),
                    _ => unreachable!(),
                };
                Ok(MV::G(r as u64))
            }
            _ => unreachable!(),
        }
    }

    fn parse_typed(&self, ty: ValueType, bytes: &[u8]) -> R<MV> {
        if ty == ValueType::Generic {
            return Err(e("UnsupportedTypeOperation"));
        }
        let n = (bits_of(ty, 8) / 8) as usize;
        if bytes.len() < n {
            return Err(e("UnexpectedEof"));
        }
        let mut v: u64 = 0;
        for i in 0..n {
            let b = if self.p.be { bytes[i] } else { bytes[n - 1 - i] };
            v = (v << 8) | b as u64;
        }
        Ok(match ty {
            ValueType::F32 => MV::F32(f32::from_bits(v as u32)),
            ValueType::F64 => MV::F64(f64::from_bits(v)),
            t => wrap(t, v as i128),
        })
    }

    fn convert(&self, v: MV, ty: ValueType) -> R<MV> {
        Ok(match v {
            MV::F32(x) => float_to(ty, x as f64, self.mask, Some(x)),
            MV::F64(x) => float_to(ty, x, self.mask, None),
            MV::G(x) => match ty {
                ValueType::F32 => MV::F32(x as f32),
                ValueType::F64 => MV::F64(x as f64),
                ValueType::Generic => MV::G(x),
                t => wrap(t, x as i128),
            },
            MV::I(_, x) => match ty {
                // value-preserving conversion of an integer to a float
                ValueType::F32 => MV::F32(x as f32),
                ValueType::F64 => MV::F64(x as f64),
                ValueType::Generic => self.g(x),
                t => wrap(t, x),
            },
        })
    }

    fn reinterpret(&self, v: MV, ty: ValueType) -> R<MV> {
        let from_bits = bits_of(ty_of(&v), self.p.addr_size);
        let to_bits = bits_of(ty, self.p.addr_size);
        if from_bits != to_bits {
            return Err(e("TypeMismatch"));
        }
        let bits: u64 = match v {
            MV::G(x) => x,
            MV::I(_, x) => (x as u64) & if from_bits == 64 { u64::MAX } else { (1u64 << from_bits) - 1 },
            MV::F32(x) => x.to_bits() as u64,
            MV::F64(x) => x.to_bits(),
        };
        Ok(match ty {
            ValueType::Generic => MV::G(bits & self.mask),
            ValueType::F32 => MV::F32(f32::from_bits(bits as u32)),
            ValueType::F64 => MV::F64(f64::from_bits(bits)),
            t => wrap(t, bits as i128),
        })
    }

    fn push_piece(&mut self, s: String) -> R<()> {
        if self.pieces.len() >= self.piece_cap {
            return Err(e("StackFull"));
        }
        self.pieces.push(s);
        Ok(())
    }

    /// Execute everything. Returns how it ended; `trace` holds requests and results.
    pub fn run(&mut self, initial: Option<u64>) -> ModelEnd {
        match self.run_inner(initial) {
            Ok(()) => match self.unmodelled {
                Some(w) => ModelEnd::Unmodelled(w),
                None => ModelEnd::Complete,
            },
            Err(k) => match self.unmodelled {
                Some(w) => ModelEnd::Unmodelled(w),
                None => ModelEnd::Error(k),
            },
        }
    }

    fn run_inner(&mut self, initial: Option<u64>) -> R<()> {
        if let Some(v) = initial {
            self.push(MV::G(v & self.mask))?;
        }
        // call stack of (program, pc); an empty program is never entered
        let mut frames: Vec<(usize, usize)> = Vec::new();
        let mut prog = 0usize;
        let mut pc = 0usize;
        loop {
            // end_of_expression: return from finished sub-expressions
            while pc >= self.progs[prog].len() {
                match frames.pop() {
                    Some((p, c)) => {
                        prog = p;
                        pc = c;
                    }
                    None => {
                        return self.finish();
                    }
                }
            }
            self.iterations += 1;
            if let Some(m) = self.max_iterations {
                if self.iterations > m {
                    return Err(e("TooManyIterations"));
                }
            }
            let ins = self.progs[prog][pc].clone();
            pc += 1;
            let at_end = |frames: &Vec<(usize, usize)>, progs: &[Vec<Ins>], prog: usize, pc: usize| -> bool {
                // would end_of_expression() be true now?
                if pc < progs[prog].len() {
                    return false;
                }
                frames.iter().all(|(p, c)| *c >= progs[*p].len())
            };
            let mut completed: Option<String> = None;
            let mut was_piece = false;
            let mut is_call = false;
            match ins.opc {
                0x03 => {
                    self.trace.push(format!("relocated {:#x}", ins.u & self.mask_for_addr()));
                    let a = self.world.relocated(ins.u & self.mask_for_addr());
                    self.push(MV::G(a & self.mask))?;
                }
                0x06 | 0x94 | 0x18 | 0x95 | 0xa6 | 0xf6 | 0xa7 => {
                    let (size, space, bt) = match ins.opc {
                        0x06 => (self.p.addr_size, false, 0u64),
                        0x94 => (ins.u as u8, false, 0),
                        0x18 => (self.p.addr_size, true, 0),
                        0x95 => (ins.u as u8, true, 0),
                        0xa6 | 0xf6 => (ins.s as u8, false, ins.u),
                        _ => (ins.s as u8, true, ins.u),
                    };
                    if size > self.p.addr_size {
                        return Err(e("InvalidDerefSize"));
                    }
                    let a = self.pop()?;
                    let addr = self.to_u64(&a)?;
                    let sp = if space {
                        let s = self.pop()?;
                        Some(self.to_u64(&s)?)
                    } else {
                        None
                    };
                    self.trace.push(format!("mem addr={:#x} size={} space={:?} bt={}", addr, size, sp, bt));
                    let v = self.answer(self.world.memory(addr, size, sp, bt));
                    self.push(v)?;
                }
                0x08 | 0x0a | 0x0c | 0x0e | 0x10 => {
                    let v = match ins.opc {
                        0x08 => ins.u & 0xff,
                        0x0a => ins.u & 0xffff,
                        0x0c => ins.u & 0xffff_ffff,
                        _ => ins.u,
                    };
                    self.push(MV::G(v & self.mask))?;
                }
                0x09 | 0x0b | 0x0d | 0x0f | 0x11 => {
                    let v: i64 = match ins.opc {
                        0x09 => ins.s as i8 as i64,
                        0x0b => ins.s as i16 as i64,
                        0x0d => ins.s as i32 as i64,
                        _ => ins.s,
                    };
                    self.push(MV::G((v as u64) & self.mask))?;
                }
                0x12 | 0x14 | 0x15 => {
                    let idx = match ins.opc {
                        0x12 => 0usize,
                        0x14 => 1,
                        _ => (ins.u & 0xff) as usize,
                    };
                    if idx >= self.stack.len() {
                        return Err(e("NotEnoughStackItems"));
                    }
                    let v = self.stack[self.stack.len() - 1 - idx];
                    self.push(v)?;
                }
                0x13 => {
                    self.pop()?;
                }
                0x16 => {
                    let a = self.pop()?;
                    let b = self.pop()?;
                    self.push(a)?;
                    self.push(b)?;
                }
                0x17 => {
                    // rot: top three entries rotate, the top becomes third
                    let one = self.pop()?;
                    let two = self.pop()?;
                    let three = self.pop()?;
                    self.push(one)?;
                    self.push(three)?;
                    self.push(two)?;
                }
                0x19 => {
                    let v = self.pop()?;
                    let r = match v {
                        MV::G(x) => self.g(self.sext(x).wrapping_abs()),
                        MV::I(t, x) => wrap(t, x.wrapping_abs()),
                        // mirrors gimli (libcore has no fabs): -0.0 and NaN keep their sign
                        MV::F32(x) => MV::F32(if x < 0. { -x } else { x }),
                        MV::F64(x) => MV::F64(if x < 0. { -x } else { x }),
                    };
                    self.push(r)?;
                }
                0x1f => {
                    let v = self.pop()?;
                    let r = match v {
                        MV::G(x) => self.g(self.sext(x).wrapping_neg()),
                        MV::I(t, x) => {
                            if !is_signed(t) {
                                return Err(e("UnsupportedTypeOperation"));
                            }
                            wrap(t, x.wrapping_neg())
                        }
                        MV::F32(x) => MV::F32(-x),
                        MV::F64(x) => MV::F64(-x),
                    };
                    self.push(r)?;
                }
                0x20 => {
                    let v = self.pop()?;
                    let r = match v {
                        MV::G(x) => MV::G(!x & self.mask),
                        MV::I(t, x) => wrap(t, !x),
                        _ => return Err(e("IntegralTypeRequired")),
                    };
                    self.push(r)?;
                }
                0x1a..=0x1e | 0x21 | 0x22 | 0x24..=0x27 | 0x29..=0x2e => {
                    let b = self.pop()?;
                    let a = self.pop()?;
                    let r = self.arith(ins.opc, a, b)?;
                    self.push(r)?;
                }
                0x23 => {
                    let a = self.pop()?;
                    let b = self.from_u64(ty_of(&a), ins.u);
                    let r = self.arith(0x22, a, b)?;
                    self.push(r)?;
                }
                0x28 | 0x2f => {
                    let taken = if ins.opc == 0x28 {
                        let v = self.pop()?;
                        self.to_u64(&v)? != 0
                    } else {
                        true
                    };
                    if taken {
                        let from = self.offs[prog][pc] as i64; // offset after this instruction
                        let len = *self.offs[prog].last().unwrap() as i64;
                        let target = from + ins.s as i16 as i64;
                        if target < 0 || target > len {
                            return Err(e("BadBranchTarget"));
                        }
                        match self.offs[prog].iter().position(|o| *o as i64 == target) {
                            Some(i) => pc = i,
                            None => {
                                self.unmodelled = Some("branch into the middle of an operation");
                                return Err(e("unmodelled"));
                            }
                        }
                    }
                }
                0x30..=0x4f => {
                    self.push(MV::G((ins.opc - 0x30) as u64))?;
                }
                0x50..=0x6f => {
                    completed = Some(format!("Register({})", ins.opc - 0x50));
                }
                0x90 => {
                    if ins.u > u16::MAX as u64 {
                        return Err(e("UnsupportedRegister"));
                    }
                    completed = Some(format!("Register({})", ins.u));
                }
                0x70..=0x8f | 0x92 | 0xa5 | 0xf5 => {
                    let (reg, off, bt) = match ins.opc {
                        0x92 => (ins.u, ins.s, 0u64),
                        0xa5 | 0xf5 => (ins.u, 0, ins.s as u64),
                        _ => ((ins.opc - 0x70) as u64, ins.s, 0),
                    };
                    if reg > u16::MAX as u64 {
                        return Err(e("UnsupportedRegister"));
                    }
                    self.trace.push(format!("reg {} bt={}", reg, bt));
                    let v = self.answer(self.world.register(reg, bt));
                    let o = self.from_u64(ty_of(&v), off as u64);
                    let r = self.arith(0x22, v, o)?;
                    self.push(r)?;
                }
                0x91 => {
                    self.trace.push("frame_base".into());
                    let fb = self.world.frame_base();
                    self.push(MV::G(fb.wrapping_add(ins.s as u64) & self.mask))?;
                }
                0x93 | 0x9d => {
                    let (size, off) = if ins.opc == 0x93 {
                        match ins.u.checked_mul(8) {
                            Some(s) => (s, None),
                            None => return Err(e("InvalidExpression")),
                        }
                    } else {
                        (ins.u, Some(ins.s as u64))
                    };
                    let loc = if self.stack.is_empty() {
                        "Empty".to_string()
                    } else {
                        let v = self.pop()?;
                        format!("Address({:#x})", self.to_u64(&v)? & self.addr_piece_mask(&v))
                    };
                    self.push_piece(format!("piece size={:?} off={:?} loc={}", Some(size), off, loc))?;
                    was_piece = true;
                }
                0x96 => {}
                0x97 => match self.object_address {
                    Some(a) => self.push(MV::G(a & self.mask))?,
                    None => return Err(e("InvalidPushObjectAddress")),
                },
                0x98 | 0x99 | 0x9a => {
                    let fmt_mask = if self.p.d64 { u64::MAX } else { 0xffff_ffff };
                    let key = match ins.opc {
                        0x9a => (ins.u & fmt_mask) ^ 0x8000_0000,
                        0x98 => ins.u & 0xffff,
                        _ => ins.u & 0xffff_ffff,
                    };
                    let r = if ins.opc == 0x9a {
                        format!("at_location DebugInfoRef(DebugInfoOffset({}))", ins.u & fmt_mask)
                    } else {
                        format!("at_location UnitRef(UnitOffset({}))", key)
                    };
                    self.trace.push(r);
                    is_call = true;
                    let nsubs = self.progs.len() - 1;
                    if nsubs > 0 {
                        let sub = 1 + (key % nsubs as u64) as usize;
                        if !self.offs[sub].last().map(|l| *l == 0).unwrap_or(true) {
                            if frames.len() >= self.call_cap {
                                return Err(e("StackFull"));
                            }
                            frames.push((prog, pc));
                            prog = sub;
                            pc = 0;
                        }
                    }
                }
                0x9b | 0xe0 => {
                    let v = self.pop()?;
                    let i = self.to_u64(&v)?;
                    self.trace.push(format!("tls {:#x}", i));
                    let a = self.world.tls(i);
                    self.push(MV::G(a & self.mask))?;
                }
                0x9c => {
                    self.trace.push("cfa".into());
                    let a = self.world.cfa();
                    self.push(MV::G(a & self.mask))?;
                }
                0x9e => {
                    completed = Some(format!("Bytes({})", crate::case::hex(&ins.bytes[..ins.bytes.len().min(64)])));
                }
                0x9f => {
                    let v = self.pop()?;
                    completed = Some(format!("Value({})", fmt_mv(&v)));
                }
                0xa0 | 0xf2 => {
                    completed = Some(format!("ImplicitPointer({},{})", ins.u & self.offset_mask(), ins.s));
                }
                0xa1 | 0xfb | 0xa2 | 0xfc => {
                    let relocate = matches!(ins.opc, 0xa1 | 0xfb);
                    self.trace.push(format!("indexed {} relocate={}", ins.u, relocate));
                    let a = self.world.indexed(ins.u, relocate);
                    self.push(MV::G(a & self.mask))?;
                }
                0xa3 | 0xf3 => {
                    self.trace.push(format!("entry_value {}", crate::case::hex(&ins.bytes)));
                    let v = self.answer(self.world.entry_value(&ins.bytes));
                    self.push(v)?;
                }
                0xa4 | 0xf4 => {
                    self.trace.push(format!("base_type {}", ins.u));
                    let ty = self.world.base_type(ins.u);
                    let v = self.parse_typed(ty, &ins.bytes)?;
                    self.push(v)?;
                }
                0xa8 | 0xf7 | 0xa9 | 0xf9 => {
                    self.trace.push(format!("base_type {}", ins.u));
                    let ty = self.world.base_type(ins.u);
                    let v = self.pop()?;
                    let r = if matches!(ins.opc, 0xa8 | 0xf7) { self.convert(v, ty)? } else { self.reinterpret(v, ty)? };
                    self.push(r)?;
                }
                0xfa => {
                    self.trace.push(format!("parameter_ref {}", ins.u & 0xffff_ffff));
                    let a = self.world.parameter_ref(ins.u & 0xffff_ffff);
                    self.push(MV::G(a & self.mask))?;
                }
                0xfd | 0xf0 => return Err(e("UnsupportedEvaluation")),
                0xed => {
                    self.unmodelled = Some("wasm location");
                    return Err(e("unmodelled"));
                }
                _ => return Err(e("InvalidExpression")),
            }
            let _ = layout;
            let _ = Layout::None;
            if was_piece {
                continue;
            }
            if let Some(loc) = completed {
                if at_end(&frames, self.progs, prog, pc) {
                    if !self.pieces.is_empty() {
                        return Err(e("InvalidPiece"));
                    }
                    self.push_piece(format!("piece size=None off=None loc={}", loc))?;
                    // run the end-of-expression bookkeeping and stop
                    frames.clear();
                    pc = self.progs[prog].len();
                    continue;
                }
                // the next operation (possibly in the caller) must be a piece; it is decoded
                // without counting as an iteration
                while pc >= self.progs[prog].len() {
                    let (p, c) = frames.pop().unwrap();
                    prog = p;
                    pc = c;
                }
                let next = self.progs[prog][pc].clone();
                pc += 1;
                match next.opc {
                    0x93 => {
                        let size = match next.u.checked_mul(8) {
                            Some(s) => s,
                            None => return Err(e("InvalidExpression")),
                        };
                        self.push_piece(format!("piece size={:?} off=None loc={}", Some(size), loc))?;
                    }
                    0x9d => {
                        self.push_piece(format!("piece size={:?} off={:?} loc={}", Some(next.u), Some(next.s as u64), loc))?;
                    }
                    o => {
                        // decoding the next operation comes first
                        if o == 0xed {
                            self.unmodelled = Some("wasm location");
                            return Err(e("unmodelled"));
                        }
                        if crate::wl::expr::layout(o) == Layout::Unknown {
                            return Err(e("InvalidExpression"));
                        }
                        if matches!(o, 0x90 | 0x92 | 0xa5 | 0xf5) && next.u > u16::MAX as u64 {
                            return Err(e("UnsupportedRegister"));
                        }
                        return Err(e("InvalidExpressionTerminator"));
                    }
                }
                continue;
            }
            // an operation that is neither a piece nor a location and ends the expression after
            // pieces leaves an unterminated piece - whether or not it had to ask the debugger
            // (gimli used to skip this check after a resume; fixed, see known_findings.json).
            // A call produces no value of its own and is exempt.
            if !is_call && at_end(&frames, self.progs, prog, pc) && !self.pieces.is_empty() {
                return Err(e("InvalidPiece"));
            }
        }
    }

    fn finish(&mut self) -> R<()> {
        if self.pieces.is_empty() {
            let v = self.pop()?;
            let a = self.to_u64(&v)?;
            let a = a & self.addr_piece_mask(&v);
            self.trace.push(format!("value_result Some({})", fmt_mv(&v)));
            self.push_piece(format!("piece size=None off=None loc=Address({:#x})", a))?;
            let p = self.pieces.clone();
            self.trace.extend(p);
        } else {
            self.trace.push("value_result None".into());
            let p = self.pieces.clone();
            self.trace.extend(p);
        }
        Ok(())
    }

    fn mask_for_addr(&self) -> u64 {
        self.mask
    }

    fn offset_mask(&self) -> u64 {
        let n = self.p.offset_size();
        if n >= 8 {
            u64::MAX
        } else {
            (1u64 << (8 * n)) - 1
        }
    }

    /// Addresses produced from a generic value are masked; a typed value's 64-bit image is
    /// used as is.
    fn addr_piece_mask(&self, v: &MV) -> u64 {
        match v {
            MV::G(_) => self.mask,
            _ => u64::MAX,
        }
    }
}

fn cmp(op: u8, o: Option<std::cmp::Ordering>) -> bool {
    use std::cmp::Ordering::*;
    match (op, o) {
        (0x29, Some(Equal)) => true,
        (0x29, _) => false,
        (0x2e, Some(Equal)) => false,
        (0x2e, _) => true,
        (_, None) => false,
        (0x2a, Some(x)) => x != Less,
        (0x2b, Some(x)) => x == Greater,
        (0x2c, Some(x)) => x != Greater,
        (0x2d, Some(x)) => x == Less,
        _ => false,
    }
}

fn float_to(ty: ValueType, x: f64, mask: u64, as32: Option<f32>) -> MV {
    match ty {
        ValueType::F32 => MV::F32(as32.unwrap_or(x as f32)),
        ValueType::F64 => MV::F64(x),
        ValueType::Generic => MV::G((x as u64) & mask),
        ValueType::I8 => MV::I(ty, x as i8 as i128),
        ValueType::U8 => MV::I(ty, x as u8 as i128),
        ValueType::I16 => MV::I(ty, x as i16 as i128),
        ValueType::U16 => MV::I(ty, x as u16 as i128),
        ValueType::I32 => MV::I(ty, x as i32 as i128),
        ValueType::U32 => MV::I(ty, x as u32 as i128),
        ValueType::I64 => MV::I(ty, x as i64 as i128),
        ValueType::U64 => MV::I(ty, x as u64 as i128),
    }
}
