//! The other party of the evaluator's suspend/resume protocol: a seeded "debugger"
//! that answers register / memory / CFA / TLS / base-type / DIE / address-table
//! requests. Every answer is a pure function of (seed, request parameters), so the
//! reference model (E3) can ask the same world directly.

use crate::rng::mix;
use gimli::{Value, ValueType};

pub const VALUE_TYPES: [ValueType; 11] = [
    ValueType::Generic,
    ValueType::I8,
    ValueType::U8,
    ValueType::I16,
    ValueType::U16,
    ValueType::I32,
    ValueType::U32,
    ValueType::I64,
    ValueType::U64,
    ValueType::F32,
    ValueType::F64,
];

#[derive(Clone, Debug)]
pub struct World {
    pub seed: u64,
    pub addr_size: u8,
    /// nested expressions reachable through DW_OP_call* (indexed by reference % len)
    pub subs: Vec<Vec<u8>>,
    /// when set, answers ignore the requested base type with this probability (x/16)
    pub chaos: u64,
}

pub fn small_bits(h: u64) -> u64 {
    // bias answers toward boundary values
    match h % 8 {
        0 => 0,
        1 => 1,
        2 => u64::MAX,
        3 => 1 << 63,
        4 => (h >> 8) & 0xff,
        5 => 0x7fff_ffff,
        _ => h.rotate_left(17),
    }
}

pub fn value_of(ty: ValueType, bits: u64, addr_mask: u64) -> Value {
    match ty {
        ValueType::Generic => Value::Generic(bits & addr_mask),
        ValueType::I8 => Value::I8(bits as i8),
        ValueType::U8 => Value::U8(bits as u8),
        ValueType::I16 => Value::I16(bits as i16),
        ValueType::U16 => Value::U16(bits as u16),
        ValueType::I32 => Value::I32(bits as i32),
        ValueType::U32 => Value::U32(bits as u32),
        ValueType::I64 => Value::I64(bits as i64),
        ValueType::U64 => Value::U64(bits),
        ValueType::F32 => Value::F32(((bits % 2001) as f32 - 1000.0) / 8.0),
        ValueType::F64 => Value::F64(((bits % 2001) as f64 - 1000.0) / 8.0),
    }
}

impl World {
    pub fn new(seed: u64, addr_size: u8) -> World {
        World { seed, addr_size, subs: Vec::new(), chaos: 0 }
    }

    pub fn addr_mask(&self) -> u64 {
        if self.addr_size >= 8 {
            u64::MAX
        } else {
            (1u64 << (8 * self.addr_size as u32)) - 1
        }
    }

    fn h(&self, tag: u64, a: u64, b: u64) -> u64 {
        mix(self.seed ^ tag.wrapping_mul(0x9e3779b97f4a7c15), a, b)
    }

    /// Base type table: unit offset -> value type. Offset 0 is the generic type.
    pub fn base_type(&self, off: u64) -> ValueType {
        if off == 0 {
            ValueType::Generic
        } else {
            VALUE_TYPES[1 + (off % 10) as usize]
        }
    }

    fn answer_type(&self, tag: u64, a: u64, requested: ValueType) -> ValueType {
        if self.chaos > 0 && self.h(tag ^ 0xc4a05, a, 1) % 16 < self.chaos {
            VALUE_TYPES[(self.h(tag ^ 0xc4a05, a, 2) % 11) as usize]
        } else {
            requested
        }
    }

    pub fn register(&self, reg: u64, base_type: u64) -> Value {
        let ty = self.answer_type(1, reg, self.base_type(base_type));
        value_of(ty, small_bits(self.h(1, reg, base_type)), self.addr_mask())
    }

    pub fn memory(&self, addr: u64, size: u8, space: Option<u64>, base_type: u64) -> Value {
        let ty = self.answer_type(2, addr, self.base_type(base_type));
        let bits = small_bits(self.h(2, addr, size as u64 ^ space.unwrap_or(0x5555)));
        let bits = if size >= 8 { bits } else { bits & ((1u64 << (8 * size as u32)) - 1) };
        value_of(ty, bits, self.addr_mask())
    }

    pub fn frame_base(&self) -> u64 {
        small_bits(self.h(3, 0, 0)) & self.addr_mask()
    }

    pub fn cfa(&self) -> u64 {
        small_bits(self.h(4, 0, 0)) & self.addr_mask()
    }

    pub fn tls(&self, index: u64) -> u64 {
        small_bits(self.h(5, index, 0)) & self.addr_mask()
    }

    pub fn entry_value(&self, expr: &[u8]) -> Value {
        let mut x = 0u64;
        for &b in expr {
            x = x.wrapping_mul(131).wrapping_add(b as u64);
        }
        let ty = self.answer_type(6, x, ValueType::Generic);
        value_of(ty, small_bits(self.h(6, x, 0)), self.addr_mask())
    }

    pub fn parameter_ref(&self, off: u64) -> u64 {
        small_bits(self.h(7, off, 0)) & self.addr_mask()
    }

    pub fn relocated(&self, addr: u64) -> u64 {
        addr.wrapping_add(self.h(8, 0, 0) & 0xffff) & self.addr_mask()
    }

    pub fn indexed(&self, index: u64, relocate: bool) -> u64 {
        small_bits(self.h(9, index, relocate as u64)) & self.addr_mask()
    }

    pub fn wasm(&self, kind: u64, index: u32) -> Value {
        let ty = VALUE_TYPES[(self.h(10, kind, index as u64) % 11) as usize];
        value_of(ty, small_bits(self.h(11, kind, index as u64)), self.addr_mask())
    }

    /// Expression bytes for a DW_OP_call* reference (possibly empty).
    pub fn at_location(&self, key: u64) -> &[u8] {
        if self.subs.is_empty() {
            &[]
        } else {
            &self.subs[(key % self.subs.len() as u64) as usize]
        }
    }
}
