//! Worker process: executes its share of run indices, classifies and minimises
//! violations, reports over stdout (line protocol) and dumps digests/stats.

use crate::case::Case;
use crate::ctx::Monitors;
use crate::engine::{execute, install_panic_hook, Outcome};
use crate::engines::{self, Tier};
use crate::minimise::Minimiser;
use crate::stats::Totals;
use crate::{harness_error, Args};
use serde_json::{json, Value};
use std::collections::{BTreeMap, HashSet};
use std::io::Write;
use std::sync::atomic::{AtomicBool, AtomicU64, Ordering};
use std::sync::Arc;
use std::time::{Duration, Instant};

pub const RUN_STACK: usize = 8 << 20;

fn emit(line: &str) {
    let out = std::io::stdout();
    let mut l = out.lock();
    let _ = l.write_all(line.as_bytes());
    let _ = l.write_all(b"\n");
    let _ = l.flush();
}

/// All executions belonging to one run index: the fault-free twin (when a fault is
/// planned) and the faulted run with its position resolved against the twin.
pub fn process_index(case: &Case, mon: Monitors, keep_log: bool) -> Vec<(Case, Outcome)> {
    let mut v = Vec::new();
    if case.fault.first().copied().unwrap_or(0) >= 10 {
        let mut twin = case.clone();
        twin.fault = vec![0];
        let o = execute(&twin, mon, keep_log);
        let ops = o.ops;
        v.push((twin, o));
        let mut c = case.clone();
        c.fault = engines::e1::resolve_fault(&case.fault, ops);
        let o = execute(&c, mon, keep_log);
        v.push((c, o));
    } else {
        let o = execute(case, mon, keep_log);
        v.push((case.clone(), o));
    }
    v
}

pub fn violation_json(index: u64, case: &Case, out: &Outcome, mon: Monitors, do_min: bool) -> Value {
    let v = out.violation.as_ref().unwrap();
    let (min_case, execs) = if do_min && !v.class.starts_with("HARNESS-") {
        let mut m = Minimiser { class: &v.class, mon, budget: 2500, execs: 0 };
        let c = m.run(case);
        (c, m.execs)
    } else {
        (case.clone(), 0)
    };
    let re = execute(&min_case, mon, true);
    let reproduced = re.class() == Some(v.class.as_str());
    let log = re.log.unwrap_or_default();
    let tail: Vec<&str> = log.lines().rev().take(40).collect::<Vec<_>>().into_iter().rev().collect();
    json!({
        "index": index,
        "class": v.class,
        "detail": re.violation.as_ref().map(|x| x.detail.clone()).unwrap_or(v.detail.clone()),
        "case": min_case.to_json(),
        "original_case_bytes": case.total_bytes(),
        "minimised_case_bytes": min_case.total_bytes(),
        "min_execs": execs,
        "reproduced": reproduced,
        "events_tail": tail,
    })
}

pub fn worker_main(args: &Args) -> i32 {
    let prop = args.get("prop").unwrap_or("").to_string();
    let tier = Tier::parse(args.get("tier").unwrap_or("quick")).unwrap_or(Tier::Quick);
    let engine = args.get("engine").unwrap_or("").to_string();
    let seed = args.u64("seed", crate::rng::DEFAULT_SEED);
    let runs = args.u64("runs", 0);
    let w = args.u64("w", 0);
    let nw = args.u64("nw", 1).max(1);
    let start = args.u64("start", 0);
    let per_index = args.get("per-index").is_some();
    let wall_limit = args.u64("wall-limit", 20);
    let out_dir = args.get("out").unwrap_or("").to_string();
    let tag = args.get("tag").unwrap_or("x").to_string();
    install_panic_hook();
    let mon = engines::monitors_for(&prop);

    let cur_start = Arc::new(AtomicU64::new(0));
    let cur_index = Arc::new(AtomicU64::new(0));
    let done = Arc::new(AtomicBool::new(false));
    let _t0 = Instant::now();
    let (cs, ci, dn) = (cur_start.clone(), cur_index.clone(), done.clone());
    let handle = std::thread::Builder::new()
        .stack_size(RUN_STACK)
        .spawn(move || {
            let mut totals = Totals::default();
            let mut distinct: HashSet<u64> = HashSet::new();
            let mut seen_classes: BTreeMap<String, u64> = BTreeMap::new();
            let mut per: Vec<u8> = Vec::new();
            let mut samples: Vec<Value> = Vec::new();
            let mut i = start;
            // first index of this worker at or after start
            while i % nw != w {
                i += 1;
            }
            while i < runs {
                ci.store(i, Ordering::Relaxed);
                cs.store(process_cpu_ms() + 1, Ordering::Relaxed);
                emit(&format!("B {}", i));
                let case = engines::gen_case(&engine, &prop, tier, seed, i);
                let outs = process_index(&case, mon, false);
                totals.indices += 1;
                for (sub, (c, o)) in outs.iter().enumerate() {
                    totals.account(c, o);
                    if o.nontrivial() {
                        distinct.insert(o.digest);
                    }
                    if per_index {
                        per.extend_from_slice(format!("{} {} {:016x}\n", i, sub, o.digest).as_bytes());
                    }
                    if samples.len() < 3 && o.nontrivial() && i % 7 == w % 7 {
                        samples.push(json!({"index": i, "case": c.summary(), "ops": o.ops,
                            "fired": o.fired, "items": o.items, "errs": o.errs, "ends": o.ends,
                            "digest": format!("{:016x}", o.digest)}));
                    }
                    if let Some(v) = o.violation.as_ref().filter(|v| engines::class_belongs(&prop, &v.class)) {
                        let n = seen_classes.entry(v.class.clone()).or_default();
                        *n += 1;
                        if *n == 1 {
                            let j = violation_json(i, c, o, mon, true);
                            emit(&format!("V {}", j));
                        }
                    }
                }
                cs.store(0, Ordering::Relaxed);
                i += nw;
            }
            dn.store(true, Ordering::Relaxed);
            (totals, distinct, seen_classes, per, samples)
        })
        .unwrap_or_else(|e| harness_error(&format!("spawn: {}", e)));

    // watchdog
    loop {
        if done.load(Ordering::Relaxed) || handle.is_finished() {
            break;
        }
        std::thread::sleep(Duration::from_millis(100));
        let s = cur_start.load(Ordering::Relaxed);
        if s != 0 {
            let now = process_cpu_ms() + 1;
            if now > s && now - s > wall_limit * 1000 {
                emit(&format!("W {}", cur_index.load(Ordering::Relaxed)));
                unsafe { libc::_exit(86) };
            }
        }
    }
    let (totals, distinct, classes, per, samples) = match handle.join() {
        Ok(x) => x,
        Err(_) => {
            emit("X worker thread panicked outside a run");
            return 2;
        }
    };
    if !out_dir.is_empty() {
        let p = format!("{}/distinct.{}.{}.bin", out_dir, tag, w);
        let mut buf = Vec::with_capacity(distinct.len() * 8);
        let mut d: Vec<u64> = distinct.into_iter().collect();
        d.sort_unstable();
        for x in d {
            buf.extend_from_slice(&x.to_le_bytes());
        }
        if let Err(e) = std::fs::write(&p, &buf) {
            harness_error(&format!("write {}: {}", p, e));
        }
        if per_index {
            let p = format!("{}/perindex.{}.{}.txt", out_dir, tag, w);
            if let Err(e) = std::fs::write(&p, &per) {
                harness_error(&format!("write {}: {}", p, e));
            }
        }
    }
    let mut cl = serde_json::Map::new();
    for (k, v) in classes {
        cl.insert(k, json!(v));
    }
    emit(&format!(
        "S {}",
        json!({"totals": totals.to_json(), "classes": cl, "samples": samples})
    ));
    0
}

/// CPU time consumed by this process so far, in ms. The watchdogs measure CPU time, not
/// wall-clock time: a run that is starved by other load on the machine is not a hang.
pub fn process_cpu_ms() -> u64 {
    let mut ts = libc::timespec { tv_sec: 0, tv_nsec: 0 };
    unsafe { libc::clock_gettime(libc::CLOCK_PROCESS_CPUTIME_ID, &mut ts) };
    ts.tv_sec as u64 * 1000 + ts.tv_nsec as u64 / 1_000_000
}

fn on_big_stack<T: Send + 'static>(f: impl FnOnce() -> T + Send + 'static) -> T {
    std::thread::Builder::new()
        .stack_size(RUN_STACK)
        .spawn(f)
        .unwrap()
        .join()
        .unwrap_or_else(|_| harness_error("run thread panicked"))
}

/// Execute exactly one index in this (fresh) process; used to confirm crashes.
pub fn one_main(args: &Args) -> i32 {
    let prop = args.get("prop").unwrap_or("").to_string();
    let tier = Tier::parse(args.get("tier").unwrap_or("quick")).unwrap_or(Tier::Quick);
    let engine = args.get("engine").unwrap_or("").to_string();
    let seed = args.u64("seed", crate::rng::DEFAULT_SEED);
    let index = args.u64("index", 0);
    install_panic_hook();
    let mon = engines::monitors_for(&prop);
    let case = engines::gen_case(&engine, &prop, tier, seed, index);
    emit(&format!("C {}", case.to_json()));
    let res = on_big_stack(move || {
        let outs = process_index(&case, mon, false);
        let mut v = Vec::new();
        for (c, o) in outs {
            emit(&format!("E {}", c.to_json()));
            v.push(json!({"digest": format!("{:016x}", o.digest), "class": o.class(),
                "ops": o.ops, "fired": o.fired}));
        }
        v
    });
    emit(&format!("R {}", json!(res)));
    0
}

/// Execute a strided slice of the index space in this process (used under Miri, where a
/// memory-safety error ends the process: the last `B <i>` names the index).
pub fn slice_main(args: &Args) -> i32 {
    let prop = args.get("prop").unwrap_or("").to_string();
    let tier = Tier::parse(args.get("tier").unwrap_or("quick")).unwrap_or(Tier::Quick);
    let engine = args.get("engine").unwrap_or("").to_string();
    let seed = args.u64("seed", crate::rng::DEFAULT_SEED);
    let start = args.u64("start", 0);
    let step = args.u64("step", 1).max(1);
    let count = args.u64("count", 1);
    let max_bytes = args.u64("max-bytes", u64::MAX);
    install_panic_hook();
    let mon = engines::monitors_for(&prop);
    let mut done = 0u64;
    let mut i = start;
    let mut tried = 0u64;
    while done < count && tried < count * 64 {
        tried += 1;
        let case = engines::gen_case(&engine, &prop, tier, seed, i);
        let idx = i;
        i += step;
        if case.total_bytes() as u64 > max_bytes {
            continue;
        }
        emit(&format!("B {}", idx));
        let p2 = prop.clone();
        let res = on_big_stack(move || {
            let outs = process_index(&case, mon, false);
            let mut v = Vec::new();
            for (c, o) in outs {
                let class = o.class().filter(|c| engines::class_belongs(&p2, c)).map(|s| s.to_string());
                if class.is_some() {
                    emit(&format!("E {}", c.to_json()));
                }
                v.push(json!({"digest": format!("{:016x}", o.digest), "class": class, "ops": o.ops, "fired": o.fired}));
            }
            v
        });
        emit(&format!("R {} {}", idx, json!(res)));
        done += 1;
    }
    emit(&format!("S {}", done));
    0
}

/// Execute the case stored in a replay file; prints `R {class, detail, digest, log}`.
pub fn exec_case_main(args: &Args) -> i32 {
    let path = match args.pos.get(1) {
        Some(p) => p.clone(),
        None => harness_error("exec-case <file>"),
    };
    let txt = std::fs::read_to_string(&path).unwrap_or_else(|e| harness_error(&format!("{}: {}", path, e)));
    let v: Value = serde_json::from_str(&txt).unwrap_or_else(|e| harness_error(&format!("{}: {}", path, e)));
    let prop = v["property"].as_str().unwrap_or("").to_string();
    let case = Case::from_json(&v["case"]).unwrap_or_else(|e| harness_error(&format!("bad case: {}", e)));
    install_panic_hook();
    let mon = engines::monitors_for(&prop);
    emit("B 0");
    let j = on_big_stack(move || {
        let o = execute(&case, mon, true);
        json!({"class": o.class(), "detail": o.violation.as_ref().map(|x| x.detail.clone()),
            "digest": format!("{:016x}", o.digest), "ops": o.ops, "fired": o.fired,
            "log": o.log.unwrap_or_default()})
    });
    emit(&format!("R {}", j));
    0
}

/// Debug aid: print the generated case for an index.
pub fn gen_main(args: &Args) -> i32 {
    let prop = args.get("prop").unwrap_or("").to_string();
    let tier = Tier::parse(args.get("tier").unwrap_or("quick")).unwrap_or(Tier::Quick);
    let engine = args.get("engine").unwrap_or("").to_string();
    let seed = args.u64("seed", crate::rng::DEFAULT_SEED);
    let index = args.u64("index", 0);
    let case = engines::gen_case(&engine, &prop, tier, seed, index);
    println!("{}", serde_json::to_string_pretty(&case.to_json()).unwrap());
    0
}
