//! The process heap as a seam: a counting allocator that *refuses* absurd requests while a
//! run is armed (simulated allocation failure). gimli parses inputs of at most 1 MiB here;
//! a single request above 256 MiB, or more than 1 GiB live, can only come from a capacity
//! computed out of an untrusted count. Refusal makes `alloc` return null, which std turns
//! into `handle_alloc_error` -> abort; the process layer attributes the abort to the run
//! (class `abort@<api>`), the same on every machine regardless of RAM and overcommit.
//! Fallible paths (`try_reserve`) see the refusal as an ordinary error.

use std::alloc::{GlobalAlloc, Layout, System};
use std::sync::atomic::{AtomicBool, AtomicUsize, Ordering::Relaxed};

pub const MAX_SINGLE: usize = 256 << 20;
pub const MAX_LIVE: usize = 1 << 30;

static ARMED: AtomicBool = AtomicBool::new(false);
static LIVE: AtomicUsize = AtomicUsize::new(0);
static PEAK_SINGLE: AtomicUsize = AtomicUsize::new(0);
static REFUSED: AtomicUsize = AtomicUsize::new(0);

pub struct SimAlloc;

#[inline]
fn admit(size: usize) -> bool {
    if !ARMED.load(Relaxed) {
        return true;
    }
    if size > PEAK_SINGLE.load(Relaxed) {
        PEAK_SINGLE.store(size, Relaxed);
    }
    if size > MAX_SINGLE || LIVE.load(Relaxed).saturating_add(size) > MAX_LIVE {
        REFUSED.fetch_add(1, Relaxed);
        return false;
    }
    true
}

unsafe impl GlobalAlloc for SimAlloc {
    unsafe fn alloc(&self, l: Layout) -> *mut u8 {
        if !admit(l.size()) {
            return std::ptr::null_mut();
        }
        let p = unsafe { System.alloc(l) };
        if !p.is_null() {
            LIVE.fetch_add(l.size(), Relaxed);
        }
        p
    }
    unsafe fn alloc_zeroed(&self, l: Layout) -> *mut u8 {
        if !admit(l.size()) {
            return std::ptr::null_mut();
        }
        let p = unsafe { System.alloc_zeroed(l) };
        if !p.is_null() {
            LIVE.fetch_add(l.size(), Relaxed);
        }
        p
    }
    unsafe fn dealloc(&self, p: *mut u8, l: Layout) {
        unsafe { System.dealloc(p, l) };
        LIVE.fetch_sub(l.size(), Relaxed);
    }
    unsafe fn realloc(&self, p: *mut u8, l: Layout, new: usize) -> *mut u8 {
        if new > l.size() && !admit(new - l.size()) {
            return std::ptr::null_mut();
        }
        if new > MAX_SINGLE && ARMED.load(Relaxed) {
            REFUSED.fetch_add(1, Relaxed);
            return std::ptr::null_mut();
        }
        let q = unsafe { System.realloc(p, l, new) };
        if !q.is_null() {
            if new >= l.size() {
                LIVE.fetch_add(new - l.size(), Relaxed);
            } else {
                LIVE.fetch_sub(l.size() - new, Relaxed);
            }
        }
        q
    }
}

/// Arm / disarm the refusal (the counters run always). Returns the previous state.
pub fn arm(on: bool) -> bool {
    ARMED.swap(on, Relaxed)
}

/// Largest single request seen while armed since the last call; resets it.
pub fn take_peak_single() -> usize {
    PEAK_SINGLE.swap(0, Relaxed)
}

pub fn refused() -> usize {
    REFUSED.load(Relaxed)
}
