//! A `Case` is the complete, serialisable description of one simulated run: a run is a
//! pure function of (Case, code). Seeds generate cases, replay files store them, the
//! minimiser rewrites them.

use serde_json::{json, Map, Value};
use std::collections::BTreeMap;

#[derive(Clone, Debug, PartialEq, Default)]
pub struct Case {
    pub engine: String,
    pub family: String,
    pub secs: BTreeMap<String, Vec<u8>>,
    pub knobs: BTreeMap<String, i64>,
    pub fault: Vec<i64>,
    pub steps: Vec<Vec<i64>>,
    pub note: String,
}

impl Case {
    pub fn new(engine: &str, family: &str) -> Case {
        Case {
            engine: engine.to_string(),
            family: family.to_string(),
            fault: vec![0],
            ..Default::default()
        }
    }

    pub fn knob(&self, k: &str, default: i64) -> i64 {
        self.knobs.get(k).copied().unwrap_or(default)
    }

    pub fn set(&mut self, k: &str, v: i64) -> &mut Self {
        self.knobs.insert(k.to_string(), v);
        self
    }

    pub fn sec(&self, name: &str) -> &[u8] {
        self.secs.get(name).map(|v| &v[..]).unwrap_or(&[])
    }

    pub fn put(&mut self, name: &str, bytes: Vec<u8>) -> &mut Self {
        self.secs.insert(name.to_string(), bytes);
        self
    }

    pub fn total_bytes(&self) -> usize {
        self.secs.values().map(|v| v.len()).sum()
    }

    pub fn to_json(&self) -> Value {
        let mut secs = Map::new();
        for (k, v) in &self.secs {
            secs.insert(k.clone(), Value::String(hex(v)));
        }
        let mut knobs = Map::new();
        for (k, v) in &self.knobs {
            knobs.insert(k.clone(), json!(v));
        }
        json!({
            "engine": self.engine,
            "family": self.family,
            "secs": secs,
            "knobs": knobs,
            "fault": self.fault,
            "steps": self.steps,
            "note": self.note,
        })
    }

    pub fn from_json(v: &Value) -> Result<Case, String> {
        let mut c = Case::new(
            v["engine"].as_str().ok_or("engine")?,
            v["family"].as_str().ok_or("family")?,
        );
        if let Some(m) = v["secs"].as_object() {
            for (k, x) in m {
                c.secs
                    .insert(k.clone(), unhex(x.as_str().ok_or("sec hex")?)?);
            }
        }
        if let Some(m) = v["knobs"].as_object() {
            for (k, x) in m {
                c.knobs.insert(k.clone(), x.as_i64().ok_or("knob")?);
            }
        }
        if let Some(a) = v["fault"].as_array() {
            c.fault = a.iter().map(|x| x.as_i64().unwrap_or(0)).collect();
        }
        if let Some(a) = v["steps"].as_array() {
            c.steps = a
                .iter()
                .map(|s| {
                    s.as_array()
                        .map(|s| s.iter().map(|x| x.as_i64().unwrap_or(0)).collect())
                        .unwrap_or_default()
                })
                .collect();
        }
        c.note = v["note"].as_str().unwrap_or("").to_string();
        Ok(c)
    }

    /// Short human summary used in evidence samples.
    pub fn summary(&self) -> Value {
        let mut secs = Map::new();
        for (k, v) in &self.secs {
            let n = v.len().min(48);
            secs.insert(
                k.clone(),
                json!({"len": v.len(), "hex_prefix": hex(&v[..n])}),
            );
        }
        json!({
            "engine": self.engine,
            "family": self.family,
            "secs": secs,
            "knobs": self.knobs,
            "fault": self.fault,
            "steps": if self.steps.len() > 12 { json!({"n": self.steps.len(), "first": &self.steps[..12]}) } else { json!(self.steps) },
            "note": self.note,
        })
    }
}

pub fn hex(b: &[u8]) -> String {
    const D: &[u8; 16] = b"0123456789abcdef";
    let mut s = String::with_capacity(b.len() * 2);
    for &x in b {
        s.push(D[(x >> 4) as usize] as char);
        s.push(D[(x & 15) as usize] as char);
    }
    s
}

pub fn unhex(s: &str) -> Result<Vec<u8>, String> {
    let b = s.as_bytes();
    if b.len() % 2 != 0 {
        return Err("odd hex".into());
    }
    let d = |c: u8| -> Result<u8, String> {
        match c {
            b'0'..=b'9' => Ok(c - b'0'),
            b'a'..=b'f' => Ok(c - b'a' + 10),
            b'A'..=b'F' => Ok(c - b'A' + 10),
            _ => Err("bad hex".into()),
        }
    };
    let mut v = Vec::with_capacity(b.len() / 2);
    for i in (0..b.len()).step_by(2) {
        v.push(d(b[i])? << 4 | d(b[i + 1])?);
    }
    Ok(v)
}
